#!/usr/bin/env python3
import json,sys,glob
files=sys.argv[1:] or sorted(glob.glob('/verif/replays/*.json'))
for f in files:
    r=json.load(open(f))
    if r.get('regenerate'): print('=====',f,'REGEN',r); continue
    v=r['violation']
    c=r['config']
    print('=====',f.split('/')[-1],c['lang'],c['locale'],c['initial'],'followers=%d'%c['followers'],'from',r['minimised_from'])
    for i,e in enumerate(r['events']):
        ev=dict(e['ev']); k=ev.pop('k')
        print('  #%d %s %s -> %s'%(i,k,json.dumps(ev,ensure_ascii=False),e['result']), ('[%s]'%e['fault']) if e.get('fault') else '')
    print('  >>',v['oracle'],v['culprit_kind'],v['facets'],'|',v['detail'][:200])
    for d in v['diff'][:5]: print('      %s@%s: exp=%r act=%r'%(d['facet'],d['at'],d['expected'][:110],d['actual'][:110]))
