#!/usr/bin/env python3
"""Generates /verif/MANIFEST.json from the table below (kept next to the code so
that the manifest always lists exactly the checks that exist)."""
import json, subprocess

NA = {
 "C06": "pure function of a formula text and the values it reads; needs an independent reference evaluator and program enumeration - no schedule, clock, I/O, fault or history for a simulator to own",
 "C09": "pure printer/parser round trip over syntax trees x locales; its one clause with a storage seam (save and reload computes the same) is exercised by the C26/C24 restarts, not claimed here",
 "C11": "robustness of pure text->result functions over all Unicode strings: fuzzing, nothing to schedule or fault",
 "C19": "pure string->number recogniser; bounded-exhaustive enumeration of short strings, no state, schedule or fault",
 "C20": "pure (number, format code, locale)->string function",
 "C21": "exhaustive enumeration of 2 958 465 serial numbers through pure conversion functions",
 "C22": "pure codecs over finite domains (column letters, addresses, sheet-name quoting)",
 "C23": "exhaustive table lookup over functions x languages; pure lookup, nothing to simulate",
 "C34": "pure string rewriting function of (text, cursor start, end)",
}

# property -> (level, text, note, technique, design_ref)
CLAIMED = {
 "C02": ("exploration",
   "same simulated histories as C01 with undo 25% / redo 20% and bursts; after every redo the snapshot must equal the one the history-cursor model recorded after the original operation; can_undo/can_redo and the hook-H1 stack lengths must follow the cursor; a new operation after partial undo must empty the redo list. Sampling, not proof.",
   "as C01; a run in which an *undo* fails to restore is left to C01 (run abandoned, counted in evidence)",
   "deterministic simulation: seeded history search + history-cursor reference model", "6 C02"),
 "C03": ("exploration",
   "primary session plus 1-2 follower sessions (other hash seeds) in one process, a sixth of the runs starting from an imported fixture of xlsx/tests (another default style, fonts, style pools); the scheduler cuts the outgoing diff queue into batches (flush after every event / p=0.5 / p=0.1 / only at the end) and delivers them in order with a drawn lag; at every quiescent point and after a final flush+drain the followers' observable snapshots must equal the primary's and apply_external_diffs must have returned Ok. Loss, duplication and reordering are not injected: the statement assumes in-order exactly-once delivery.",
   "bounds of DESIGN 2.2; followers use the primary's language (it is per-user state the queue does not carry)",
   "deterministic simulation: seeded schedule of batch cuts and deliveries, convergence invariant at quiescence", "6 C03"),
 "C04": ("fault_enumeration",
   "fault injection at the API seam: a table of 86 (operation, invalid-argument class) entries (DESIGN Appendix A) is injected at random points of simulated histories (empty and non-empty undo/redo lists); whenever a call returns Err the observable snapshot and the undo/redo stack lengths (hook H1) must be unchanged. Every table entry is injected and rejected many times per run of the check (counts in evidence).",
   "the table enumerates invalid-argument classes, the states they are injected in are sampled; 'unchanged' = observable snapshot of DESIGN 3 plus stack lengths",
   "deterministic simulation with fault injection: rejected calls at arbitrary points of a history, before/after comparison", "6 C04 + Appendix A"),
 "C08": ("exploration",
   "invariant monitor inside the simulator: after every event, on every live node (primary, followers, restarted incarnations), every NumberCell, formula value and spill value is scanned for NaN / infinity; the workload is biased to overflow (1E308, 1E-320, ^ * /, SUM, array literals and range arithmetic in scalar, CSE and dynamic form) and includes typed numbers like 1e999. What is NOT decided here: the statement's sweep of every built-in function x extreme arguments (an enumeration of a pure function table, which needs the function-enum hook and is not simulation) and numbers read from xlsx files (exercised by the C24/C25 corruption stage).",
   "only the formula grammar of DESIGN 4.2 (operators and a 20-function whitelist) is exercised; ~475 built-in functions are never called by this check",
   "deterministic simulation: invariant monitor over seeded histories biased to overflow", "6 C08"),
 "C24": ("exploration",
   "the xlsx disk is a simulated device: at ~12% of the steps of histories of 3-25 operations (all families, half of the runs with texts, string literals, sheet names, link targets and tooltips drawn from a pool of control characters, XML specials, _xHHHH_ look-alikes, CR/LF forms, significant white space, non-characters, astral and combining code points) the current workbook is exported through SimDisk and what the disk holds is imported. 70% of the exports are fault-free: the imported workbook's observable snapshot, restricted to what the statement lists (sheets, cells, styles, row/column descriptors, panes, grid lines, names, links, conditional formats with priorities as an order), must equal the exported one's. 30% run under a drawn write-fault plan (short writes, Interrupted, hard error at byte k, failing seek, failing flush): save_xlsx_to_writer must return Err, or Ok with a disk holding entry for entry the bytes of the fault-free export (zip entry timestamps, the one field the writer takes from the real clock, excepted). Sampling, not proof.",
   "bounds of DESIGN 2.2; workbook name, theme, named-style catalogue, locale and timezone are not in the statement and not compared; the export of an unevaluated (paused) workbook is skipped",
   "deterministic simulation with fault injection: export/import at arbitrary points of seeded histories through a fault-injecting disk; snapshot equality and byte identity against the fault-free export", "6 C24"),
 "C25": ("fault_enumeration",
   "storage-fault injection on valid packages: the simulator's own export of a history-reached workbook or one of ~240 fixtures of xlsx/tests is damaged by one drawn fault (truncation, zero-filled block, bit flips, dropped / duplicated / emptied / swapped zip entry, truncated XML part, dropped element, dropped or garbled attribute, forged text payload, deep nesting, garbage) and, in 15% of the cases, read through a device that injects short reads, Interrupted, EIO or early EOF (hook H2); import and Model::from_workbook must return (Ok or Err); the imported workbook is not evaluated here (the statement speaks of importing; panics and unbounded loops of built-in functions on extreme cell values that showed up while evaluation was still part of the case are listed in known_findings.json as fixed). A panic is caught and reported with its location; a hang or abort is caught by the watchdog and decided by re-running the case alone with a 300 s budget. On top of the seeded runs a deterministic list of cases is enumerated: for every fixture, every part (dropped, emptied, truncated at 10/50/90%), every element name occurring in it (first / every occurrence dropped), every attribute name (dropped, set to each of 6 forged values), and every worksheet's <v> and <f> payloads set to each of 8 / 6 forged values (~397 000 cases; thorough runs all, quick every 29th).",
   "no memory limit is imposed on the workers: an allocation bomb would show as an abort; 'runs without bound' is decided against a 300 s budget for packages below 1 MB",
   "deterministic simulation with fault injection: storage corruption and reader faults on valid packages, crash/hang oracle", "6 C25"),
 "C26": ("exploration",
   "storage seam of the internal format: Save, clean Restart (to_bytes -> from_bytes -> evaluate, new incarnation with another hash seed, undo history and queue lost) and dirty Restart (crash: load the last saved bytes) are events of simulated histories; at every Save the bitcode decoding of to_bytes() must equal the workbook field by field; after a clean restart the observable snapshot must equal the one before it, after a dirty restart the one taken at the Save. The run continues on the restarted node.",
   "comparisons are made on evaluated states only (a paused session has stale values by design)",
   "deterministic simulation: restart (clean/dirty) injection at arbitrary points of seeded histories", "6 C26"),
 "C27": ("exploration",
   "invariant monitor: the well-formedness scan (sheet names/ids, cells in grid, style/string/formula indices, column descriptors sorted/disjoint/in grid, unique row descriptors, spill structure, defined-name scopes) runs on every live node after every event of histories that mix operations, rejected calls (C04 table), undo/redo, a follower fed by the queue, restarts and paused evaluation",
   "spill clauses are evaluated on evaluated states only; nodes imported from corrupted xlsx packages are not monitored (the statement speaks of operations)",
   "deterministic simulation: invariant monitor on all nodes after every event", "6 C27"),
 "C28": ("exploration",
   "invariant monitor on the raw view state (workbook.views / worksheet.views, not the getters that fall back to defaults) after every event of histories dense in sheet add/delete/duplicate/move/hide at every index relative to the selected one, selection and keyboard/mouse navigation, hide rows/columns, undo/redo",
   "only view 0 exists in these sessions",
   "deterministic simulation: invariant monitor over seeded histories of sheet and navigation events", "6 C28"),
 "C29": ("exploration",
   "reference model of line attributes (map line -> actual size, hidden flag, style) checked after every event on two nodes: a bare Model driven through its own setters (set_column_width / set_column_hidden / set_column_style / delete_column_style and the row equivalents, byte-level restarts), started empty, from one of four multi-column descriptor layouts or from an imported fixture; and an editing session driven through the user-level multi-line operations, whole-column / whole-row / partial update_range_style and range_clear_formatting, undo/redo (history cursor over reference states) and clean restarts. After every event every line of the check set (window 1..14, the last two lines of the grid, every line a descriptor mentions and its neighbours, every line ever touched) is read through the public getters: targeted attribute = new value, every other attribute of every line = reference; visible size = 0 iff hidden. Sampling, not proof.",
   "events the model does not describe (typing, structural edits, pastes: sprinkled in at 3-20%) resynchronise the reference, and so does undo/redo of such an event (that is C01's subject); the new style of a whole-line update_range_style is taken from the engine (its content is C30's subject)",
   "deterministic simulation: seeded operation histories with restarts and undo/redo against a reference model of row/column attributes", "6 C29"),
 "C30": ("exploration",
   "reference model target -> last assigned style on the same two nodes: a per-run pool of 10 styles drawn from the attribute space (40 number-format codes including built-in ones in other letter case, font name/family/scheme/size, five border sides in nine line styles, diagonal flags, fills, eight horizontal and five vertical alignments, wrap, quote prefix) is assigned to cells, rows and columns of the bare Model and, through on_paste_styles, to cell ranges of the session, interleaved with every other operation, restarts and (fixture-imported) style pools that shadow built-in number-format ids; after every event every tracked target must read back exactly the style last assigned to it, which also decides the no-aliasing clause (an assignment to one target must not change what another reads). Sampling, not proof.",
   "a tracked target is dropped when an event may legitimately restyle it (typing into it, a style/border/clear operation over it or next to it, any structural edit, paste, undo/redo); styles parented to named styles are exercised only as far as fixtures and ApplyNamedStyle events bring them",
   "deterministic simulation: seeded histories of style assignments interleaved with other operations and restarts, read-back against a last-assignment reference model", "6 C30"),
 "C12": ("exploration",
   "reference displacement model (DESIGN Appendix B, sim/src/structural.rs): an independent re-implementation on absolute coordinates of what insert_rows / insert_columns must do, applied after every successful insertion of seeded histories (workbook built from inputs of every type, formulas with relative/absolute/mixed/cross-sheet references, ranges, whole rows/columns, names, dynamic arrays, links, styles; insertions at drawn positions and counts on any sheet, undo/redo in between) to (a) every cell: content, kind, typed value, style and link found at the mapped position, nothing appearing from nowhere; (b) every reference leaf of every formula, by walking the engine's own parsed trees before and after: same shape, every leaf at the mapped target with the same $ flags, ranges that receive the band grow, leaves pushed off the grid are #REF!; (c) the typed value of every eligible formula is unchanged. Sampling, not proof.",
   "eligible formulas = plain (non-array) formulas all of whose leaves the model constrains, that contain no name / lambda / table / implicit-intersection / spill-range node, are on no dependency cycle and read (transitively, in the state before and in the state after) no array, dynamic array or ineligible formula; conditional-format priorities, the style of a freshly inserted blank band and sizes of inserted lines are not asserted",
   "deterministic simulation: seeded histories, reference displacement model applied operation by operation to cells, parsed formula trees and values", "6 C12 + Appendix B"),
 "C13": ("exploration",
   "as C12 for delete_rows / delete_columns: cells outside the band at their shifted position; references into the band are #REF!; references and ranges disjoint from the band shift; ranges intersecting the band (and whole rows/columns) are left unconstrained, as the statement leaves them; formulas none of whose leaves touches the band keep their typed value.",
   "eligible formulas = plain (non-array) formulas all of whose leaves the model constrains, that contain no name / lambda / table / implicit-intersection / spill-range node, are on no dependency cycle and read (transitively, in the state before and in the state after) no array, dynamic array or ineligible formula; conditional-format priorities, the style of a freshly inserted blank band and sizes of inserted lines are not asserted",
   "deterministic simulation: seeded histories, reference displacement model applied operation by operation to cells, parsed formula trees and values", "6 C13 + Appendix B"),
 "C14": ("exploration",
   "event InsertThenDelete(sheet, axis, p, k) injected at 25% of the steps of seeded histories (positions 1..12 and the grid edge); precondition computed on the state before (no cell, reference leaf, descriptor, link or conditional-format range within k lines of the edge on that axis); oracle: the full observable snapshot (contents, kinds, typed values, formula texts, styles, links, row/column sizes, hidden flags and styles, conditional formats, names) before == after.",
   "cases whose precondition fails are counted and skipped; known value-history defects of array formulas (cycles, competing spills) are reported as known findings",
   "deterministic simulation: seeded histories with injected insert-then-delete pairs, snapshot identity", "6 C14"),
 "C15": ("exploration",
   "as C12 for move_rows_action / move_columns_action with the permutation of the axis: cells, styles, links and row/column descriptors at the permuted position; single references, and ranges lying entirely in the moved block, entirely in the shifted band or entirely outside both, follow; eligible formulas keep their values. The session widens the offset by the hidden lines it jumps over: every offset between the requested one and the requested one plus the number of hidden lines on the way is tried and the operation passes iff the whole post-state is one of those permutations of the pre-state.",
   "eligible formulas = plain (non-array) formulas all of whose leaves the model constrains, that contain no name / lambda / table / implicit-intersection / spill-range node, are on no dependency cycle and read (transitively, in the state before and in the state after) no array, dynamic array or ineligible formula; conditional-format priorities, the style of a freshly inserted blank band and sizes of inserted lines are not asserted; column descriptors in run-length form (more than 64 equal columns) are not mapped line by line",
   "deterministic simulation: seeded histories, axis permutation model applied to cells, descriptors, parsed formula trees and values", "6 C15 + Appendix B"),
 "C16": ("exploration",
   "select, copy_to_clipboard (through serde, as the bindings do), select target, paste_from_clipboard, on the same or another sheet, overlapping or not, in every language/locale of the swarm. Cut: translation model on the selected area: pasted cells equal the originals (kind, content, typed value, style, link), the source is empty where the paste did not write, every reference leaf anywhere in the workbook into the area (ranges: both corners) points at the new place, leaves of moved formulas to cells left behind keep their absolute target, eligible formulas keep their values. Copy: the stored (relative) tree of every pasted formula equals its source's, leaf by leaf, except leaves whose shifted target leaves the grid, which must be #REF!.",
   "eligible formulas = plain (non-array) formulas all of whose leaves the model constrains, that contain no name / lambda / table / implicit-intersection / spill-range node, are on no dependency cycle and read (transitively, in the state before and in the state after) no array, dynamic array or ineligible formula; conditional-format priorities, the style of a freshly inserted blank band and sizes of inserted lines are not asserted; the session clamps the copied range to the used range of the sheet: when the differences are explained by that alone they are reported as the known finding KF-C16-CUT-AREA-CLAMPED",
   "deterministic simulation: seeded histories with clipboard operations, translation model on cells, parsed formula trees and values", "6 C16 + Appendix B"),
 "C17": ("exploration",
   "rename_sheet / move_sheet / duplicate_sheet with names that need quoting, in workbooks with cross-sheet references, references to nonexistent sheets, global and sheet-local names: typed values of all eligible formulas unchanged (at the permuted sheet index after a move, on source and copy after a duplication); after a rename every formula tree equals the tree before with exactly the leaves naming the renamed sheet showing the new name (wrong-reference leaves naming other sheets included).",
   "eligible formulas = plain (non-array) formulas all of whose leaves the model constrains, that contain no name / lambda / table / implicit-intersection / spill-range node, are on no dependency cycle and read (transitively, in the state before and in the state after) no array, dynamic array or ineligible formula; conditional-format priorities, the style of a freshly inserted blank band and sizes of inserted lines are not asserted; a wrong-reference leaf naming the new name may come alive",
   "deterministic simulation: seeded histories with sheet operations, tree equality modulo the renamed leaves, value preservation", "6 C17"),
 "C33": ("exploration",
   "the displacement / permutation / translation models of C12-C16 applied to link keys, to the corners of every part of every conditional-format range and (parsing rule formulas with the English parser relative to the top-left cell of the range) to the reference leaves of rule formulas, on every sheet, after every insert / delete / move / cut of seeded histories dense in links and conditional formats; clearing contents (range_clear_contents, range_clear_all, empty input) removes the link, and undo of the clear brings it back.",
   "range parts and rule leaves the model leaves unconstrained (intersecting a deleted band, straddling a moved block or a cut area) are counted, not asserted",
   "deterministic simulation: seeded histories, reference displacement model applied to links, conditional-format ranges and rule formulas", "6 C33 + Appendix B"),
 "C05": ("exploration",
   "fix-point check in a scratch model (sim/src/fixpoint.rs), at a third of the events and at the end of formula-heavy histories (chains, cycles, ranges, cross-sheet references, names, arrays; undo/redo, structural edits, pastes, clears, restarts, paused evaluation): for up to 16 formulas per probe (all in thorough) the public Workbook is cloned, every other formula / anchor / spill cell is replaced by a literal cell carrying the typed value it shows (written into sheet_data, nothing re-typed), the formula's own dynamic spill is removed (a CSE block keeps sentinels), the clone is evaluated cold by Model::from_workbook + evaluate, and the formula - for an array its whole block - must show what it shows in the live node. #CIRC! needs no separate clause: a cell on a real cycle re-evaluated over the literal #CIRC! of its neighbours shows #CIRC!, one that shows it without reason does not. Sampling, not proof.",
   "the engine is its own oracle (cold cache, other evaluation order, no history): a defect common to both evaluations is invisible; value-history defects of array formulas are reported as known findings",
   "deterministic simulation: seeded histories, every sampled formula re-evaluated cold in a scratch model over the values its neighbours show", "6 C05"),
 "C07": ("exploration",
   "schedule independence (sim/src/schedule.rs): at a fifth of the events and at the end of histories the inputs of the live node (sheets, defined names, the shown content of every cell that is not a spill child, CSE blocks with their size) are typed into fresh Models under four other schedules - sorted order with one evaluation at the end; reverse order with evaluation after every input; a seeded permutation with evaluation at seeded points; a seeded permutation with one evaluation at the end and a reload from bytes in the middle - each in maps created later (other hash order). After a final evaluation every variant must show the typed value and array structure the live node shows in every cell, and a second evaluation must change nothing.",
   "a variant in which re-typing the shown content does not reproduce the constants (C18's subject) is dropped and counted; styles and formatted text are not compared (typing order legitimately changes inferred formats)",
   "deterministic simulation: the same inputs replayed under seeded schedules (order, evaluation points, reload, hash order), equality of values across schedules", "6 C07"),
 "C31": ("exploration",
   "C05's cold re-evaluation restricted to dynamic-array anchors (block and every spill child), plus after every event of histories that change inputs, type into spill areas, clear, paste over, move and delete anchors, insert and delete across blocks, undo/redo and restart: no spill child outside the current result of its anchor (no orphan, no stale value), and a frame condition - typing into one cell, or evaluating, changes the user content of no other cell (spills never overwrite user content).",
   "an anchor showing #SPILL! can do so because an element of its result is #SPILL!: 'blocked' is therefore not asserted from the displayed error; results whose shape depends on their own spill area are a known finding",
   "deterministic simulation: seeded histories, cold re-evaluation of every sampled dynamic array, structural and frame invariants after every event", "6 C31"),
 "C10": ("exploration",
   "set_language and set_locale are events of seeded histories (8% of the steps, plus the Settings family), and so is re-typing what the editor shows into a random cell (12%): across a language switch every stored formula (internal text of every formula cell), every defined name, every conditional-format rule and every typed value must be unchanged; across a locale switch the same, except the values of formulas that (transitively) read a text cell (implicit text-to-number conversion follows the locale); after a re-type the stored formula of the cell is the same formula.",
   "the formula grammar has no function whose result is defined to depend on the locale; look-alike texts after a switch are a known finding",
   "deterministic simulation: configuration switches at arbitrary points of seeded histories, stored formulas and values compared before/after", "6 C10"),
 "C18": ("exploration",
   "Retype events (35% of the steps): get_cell_content of a random cell typed back with set_user_input, in histories whose inputs come from the full pool (numbers in every shape, extreme and >15-digit numbers, percentages, currencies, dates, booleans in English and in the active language, errors, look-alike texts, quote-prefixed texts, hostile texts, formulas) under every language/locale pair, with style and number-format operations and switches in between: content text, kind, style and value (to 15 significant digits) of the cell must be unchanged, and the call must not be refused.",
   "spill children and CSE anchors are not re-typed (typing there is another operation); five situations in which the editor's text does not reproduce the cell are known findings",
   "deterministic simulation: re-typing probes at arbitrary points of seeded histories, cell compared before/after", "6 C18"),
 "C32": ("exploration",
   "histories dense in defined names (global and sheet-local; cell, range and LAMBDA definitions) and sheet operations: across set_language / set_locale, rename / move / delete / add / duplicate of sheets the name neither mentions nor is scoped to, clean restarts (bytes) and xlsx restarts, the stored formula of every such name is unchanged and so is every typed value; after update_defined_name that only renames, no typed value changes.",
   "names that mention the sheet operated on are left to C17; a leading '=' of a definition is not significant",
   "deterministic simulation: name, sheet, configuration and restart events in seeded histories, definitions and values compared before/after", "6 C32"),
 "C01": ("exploration",
   "seeded deterministic simulation of editing histories (swarm-selected operation families, 3-40 events, undo/redo interleaved, hash seed and clock owned by the simulator) checked event by event against a history-cursor reference model over the observable snapshot; every violation is minimised and replays from a file. Sampling, not proof.",
   "bounds of DESIGN 2.2; 'observable' = the snapshot of DESIGN 3; open genuine defects are listed in known_findings.json and reported as KNOWN-FINDING",
   "deterministic simulation: seeded history search + history-cursor reference model", "6 C01"),
}

def main():
    commits = subprocess.check_output(["git","-C","/repo","log","--format=%H %s"]).decode().strip().split("\n")
    hooks = [c.split(" ",1)[0] for c in commits if c.split(" ",1)[1].startswith("verif")]
    checks = []
    for pid,(level,text,note,tech,ref) in sorted(CLAIMED.items()):
        checks.append({
            "property_id": pid,
            "quick_cmd": f"./check {pid} quick",
            "thorough_cmd": f"./check {pid} thorough",
            "evidence_file": f"/verif/evidence/{pid}.json",
            "replay_cmd_template": f"./check {pid} --replay {{path}}",
            "engine": "icsim",
            "level_claimed": {"category": level, "text": text, "design_ref": f"DESIGN.md section {ref}"},
            "level_note": note,
            "technique": tech,
        })
    props = [json.loads(l)["id"] for l in open("/verif/properties.jsonl")]
    na = []
    for pid in props:
        if pid in CLAIMED: continue
        if pid in NA:
            na.append({"property_id": pid, "reason": "not applicable to deterministic simulation: " + NA[pid]})
        else:
            na.append({"property_id": pid, "reason": "not claimed yet: the simulated check for this property is designed (DESIGN.md section 6) but not yet built, deterministic and silent on the unchanged tree"})
    m = {
        "version": 1,
        "setup_cmd": "./check build",
        "hooks": {
            "guard": "cargo feature `verif` (ironcalc_base/verif, ironcalc/verif), off by default",
            "enable": "the simulator crate /verif/sim depends on /repo/base and /repo/xlsx by path with features [mock_time, verif]; `./check` rebuilds it from /repo's working tree on every invocation",
            "baseline_off_cmd": "cd /repo && cargo nextest run --workspace --no-fail-fast --tool-config-file pb:/w/lib/nextest.toml --profile pb --test-threads 8 --offline || cargo test --workspace --no-fail-fast --offline",
            "source_commits": hooks,
            "add_only": True,
        },
        "engines": [{
            "name": "icsim", "path": "/verif/sim",
            "serves_properties": sorted(CLAIMED.keys()),
            "kind_free_text": "deterministic simulator with fault injection for one IronCalc deployment (primary session, follower sessions fed by the diff queue, byte store, xlsx disk, clock, entropy) - single PRNG from VERIF_SEED, replay files, minimiser, known-findings matcher",
        }],
        "checks": checks,
        "not_applicable": na,
        "notes": "exit 0 = held on everything explored (KNOWN-FINDING lines name recorded genuine defects); exit 1 = VIOLATION property=<id> replay=<path>; exit 2 = harness error. VERIF_SEED (default 1) feeds every random choice; tiers use fixed run counts.",
    }
    json.dump(m, open("/verif/MANIFEST.json","w"), indent=1)
    print("checks:", len(checks), "not_applicable:", len(na))

main()
