//! Reference models for line attributes (C29) and style read-back (C30).
//!
//! Both speak of two nodes of the world: the primary editing session (driven through
//! the user-level operations, with undo/redo and restarts) and the bare `Model`
//! (driven through its own setters, the observation points the statements name).

use crate::ev::{BareOp, Ev, A};
use crate::gen::{self, Profile};
use crate::oracle::{Oracle, Verdict, Violation};
use crate::rng::Rng;
use crate::snap::{style_json, DiffLine};
use crate::world::{StepRes, World};
use ironcalc_base::types::Style;
use ironcalc_base::Model;
use std::collections::BTreeMap;

pub const LAST_ROW: i32 = 1_048_576;
pub const LAST_COL: i32 = 16_384;

// ---------------------------------------------------------------------------
// reading the attributes of a line through the public getters

#[derive(Clone, Debug, PartialEq)]
pub struct LineVal {
    /// actual size (what unhiding brings back), in the units of the getters
    pub size: f64,
    pub hidden: bool,
    /// JSON of the style, "-" for none / default
    pub style: String,
}

/// (sheet, is_column, index)
pub type LineKey = (u32, bool, i32);

/// `base`: the workbook's style 0, what a line without a style of its own shows
fn norm_style(s: Option<Style>, base: &Option<Style>) -> String {
    match s {
        None => "-".to_string(),
        Some(st) if st == Style::default() || Some(&st) == base.as_ref() => "-".to_string(),
        Some(st) => style_json(&st),
    }
}

pub fn read_line(model: &Model, key: LineKey) -> Result<(LineVal, f64), String> {
    let (sheet, is_col, i) = key;
    let ws = model.workbook.worksheet(sheet)?;
    let base = crate::snap::style_of_index(&model.workbook.styles, 0);
    if is_col {
        let size = ws.get_actual_column_width(i)?;
        let hidden = ws.is_column_hidden(i)?;
        let visible = model.get_column_width(sheet, i)?;
        let style = norm_style(model.get_column_style(sheet, i)?, &base);
        Ok((LineVal { size, hidden, style }, visible))
    } else {
        let size = ws.actual_row_height(i)?;
        let hidden = ws.is_row_hidden(i)?;
        let visible = model.get_row_height(sheet, i)?;
        let style = norm_style(model.get_row_style(sheet, i)?, &base);
        Ok((LineVal { size, hidden, style }, visible))
    }
}

fn key_str(k: &LineKey) -> String {
    format!("{}!{}{}", k.0, if k.1 { "col" } else { "row" }, k.2)
}

/// the lines worth looking at: a window, the edges of the grid, every line a descriptor
/// mentions and its neighbours
fn check_set(model: &Model, extra: impl Iterator<Item = LineKey>) -> Vec<LineKey> {
    let mut v: Vec<LineKey> = Vec::new();
    for (si, ws) in model.workbook.worksheets.iter().enumerate() {
        let s = si as u32;
        for i in 1..=14 {
            v.push((s, true, i));
            v.push((s, false, i));
        }
        for i in [LAST_COL - 1, LAST_COL] {
            v.push((s, true, i));
        }
        for i in [LAST_ROW - 1, LAST_ROW] {
            v.push((s, false, i));
        }
        for c in &ws.cols {
            for i in [c.min - 1, c.min, c.min + 1, c.max - 1, c.max, c.max + 1] {
                if (1..=LAST_COL).contains(&i) {
                    v.push((s, true, i));
                }
            }
        }
        for r in &ws.rows {
            for i in [r.r - 1, r.r, r.r + 1] {
                if (1..=LAST_ROW).contains(&i) {
                    v.push((s, false, i));
                }
            }
        }
    }
    let nsheets = model.workbook.worksheets.len() as u32;
    v.extend(extra.filter(|k| k.0 < nsheets));
    v.sort();
    v.dedup();
    v
}

/// reference state of one node: what every touched line must read; untouched lines read
/// what they read in the pristine copy of the initial workbook
struct RefLines {
    touched: BTreeMap<LineKey, LineVal>,
    pristine: Option<Model<'static>>,
}

impl RefLines {
    fn new(bytes: &[u8]) -> RefLines {
        RefLines { touched: BTreeMap::new(), pristine: Model::from_bytes(bytes, "en").ok() }
    }
    fn expected(&self, k: LineKey) -> Option<LineVal> {
        if let Some(v) = self.touched.get(&k) {
            return Some(v.clone());
        }
        self.pristine.as_ref().and_then(|m| read_line(m, k).ok().map(|x| x.0))
    }
    fn entry(&mut self, k: LineKey) -> Option<&mut LineVal> {
        if !self.touched.contains_key(&k) {
            let v = self.expected(k)?;
            self.touched.insert(k, v);
        }
        self.touched.get_mut(&k)
    }
    fn compare(&self, model: &Model, who: &str) -> Vec<DiffLine> {
        let mut d = Vec::new();
        for k in check_set(model, self.touched.keys().copied()) {
            let exp = match self.expected(k) {
                Some(e) => e,
                None => continue,
            };
            match read_line(model, k) {
                Err(e) => d.push(DiffLine { facet: "line.error".into(), at: format!("{who}:{}", key_str(&k)), expected: format!("{exp:?}"), actual: e }),
                Ok((act, visible)) => {
                    let f = if k.1 { "col" } else { "row" };
                    if (act.size - exp.size).abs() > 1e-9 {
                        d.push(DiffLine { facet: format!("{f}.size"), at: format!("{who}:{}", key_str(&k)), expected: format!("{}", exp.size), actual: format!("{}", act.size) });
                    }
                    if act.hidden != exp.hidden {
                        d.push(DiffLine { facet: format!("{f}.hidden"), at: format!("{who}:{}", key_str(&k)), expected: exp.hidden.to_string(), actual: act.hidden.to_string() });
                    }
                    if act.style != exp.style {
                        d.push(DiffLine { facet: format!("{f}.style"), at: format!("{who}:{}", key_str(&k)), expected: exp.style.clone(), actual: act.style.clone() });
                    }
                    let want_visible = if act.hidden { 0.0 } else { act.size };
                    if (visible - want_visible).abs() > 1e-9 {
                        d.push(DiffLine {
                            facet: format!("{f}.visible"),
                            at: format!("{who}:{}", key_str(&k)),
                            expected: format!("{want_visible} (hidden={}, actual size={})", act.hidden, act.size),
                            actual: format!("{visible}"),
                        });
                    }
                }
            }
        }
        d
    }
    /// the node went through something the model does not describe: take every line of
    /// the check set as it is now (the map stays relative to the same pristine workbook,
    /// so that earlier history positions remain comparable)
    fn resync(&mut self, model: &Model) {
        for k in check_set(model, self.touched.keys().copied()) {
            if let Ok((v, _)) = read_line(model, k) {
                self.touched.insert(k, v);
            }
        }
    }
}

fn full_columns(a: &A) -> bool {
    a.row == 1 && a.height == LAST_ROW
}
fn full_rows(a: &A) -> bool {
    a.column == 1 && a.width == LAST_COL
}

// ---------------------------------------------------------------------------
// C29

pub struct LineAttrs {
    prim: RefLines,
    /// reference states by history position of the primary
    /// (state, the operation that led to it is one the model describes)
    stack: Vec<(BTreeMap<LineKey, LineVal>, bool)>,
    cursor: usize,
    bare: RefLines,
    /// style 0 of the bare model's workbook
    base: Option<Style>,
    lens: (usize, usize, usize),
    comparisons: u64,
    bare_ops: u64,
    user_ops: u64,
    undo_redo: u64,
    resyncs: u64,
    rejected: u64,
}

impl LineAttrs {
    pub fn new() -> LineAttrs {
        LineAttrs {
            prim: RefLines { touched: BTreeMap::new(), pristine: None },
            stack: vec![(BTreeMap::new(), true)],
            cursor: 0,
            bare: RefLines { touched: BTreeMap::new(), pristine: None },
            base: None,
            lens: (0, 0, 0),
            comparisons: 0,
            bare_ops: 0,
            user_ops: 0,
            undo_redo: 0,
            resyncs: 0,
            rejected: 0,
        }
    }

    fn apply_bare(&mut self, op: &BareOp) {
        use BareOp::*;
        match op {
            ColWidth { sheet, col, w } => {
                if let Some(e) = self.bare.entry((*sheet, true, *col)) {
                    e.size = *w;
                }
            }
            ColHidden { sheet, col, hidden } => {
                if let Some(e) = self.bare.entry((*sheet, true, *col)) {
                    e.hidden = *hidden;
                }
            }
            ColStyle { sheet, col, style } => {
                if let Some(e) = self.bare.entry((*sheet, true, *col)) {
                    e.style = norm_style(Some(style.clone()), &self.base);
                }
            }
            ColStyleDelete { sheet, col } => {
                if let Some(e) = self.bare.entry((*sheet, true, *col)) {
                    e.style = "-".into();
                }
            }
            RowHeight { sheet, row, h } => {
                if let Some(e) = self.bare.entry((*sheet, false, *row)) {
                    e.size = *h;
                }
            }
            RowHidden { sheet, row, hidden } => {
                if let Some(e) = self.bare.entry((*sheet, false, *row)) {
                    e.hidden = *hidden;
                }
            }
            RowStyle { sheet, row, style } => {
                if let Some(e) = self.bare.entry((*sheet, false, *row)) {
                    e.style = norm_style(Some(style.clone()), &self.base);
                }
            }
            RowStyleDelete { sheet, row } => {
                if let Some(e) = self.bare.entry((*sheet, false, *row)) {
                    e.style = "-".into();
                }
            }
            _ => {}
        }
    }

    /// true when the event is one the reference model of the primary describes
    fn apply_user(&mut self, w: &World, ev: &Ev) -> bool {
        match ev {
            Ev::ColsWidth { sheet, c0, c1, w: width } => {
                for c in *c0..=*c1 {
                    if let Some(e) = self.prim.entry((*sheet, true, c)) {
                        e.size = *width;
                    }
                }
                true
            }
            Ev::RowsHeight { sheet, r0, r1, h } => {
                for r in *r0..=*r1 {
                    if let Some(e) = self.prim.entry((*sheet, false, r)) {
                        e.size = *h;
                    }
                }
                true
            }
            Ev::ColsHidden { sheet, c0, c1, hidden } => {
                for c in *c0..=*c1 {
                    if let Some(e) = self.prim.entry((*sheet, true, c)) {
                        e.hidden = *hidden;
                    }
                }
                true
            }
            Ev::RowsHidden { sheet, r0, r1, hidden } => {
                for r in *r0..=*r1 {
                    if let Some(e) = self.prim.entry((*sheet, false, r)) {
                        e.hidden = *hidden;
                    }
                }
                true
            }
            Ev::StyleRange { a, .. } | Ev::ClearFormatting { a } => {
                let clear = matches!(ev, Ev::ClearFormatting { .. });
                if full_columns(a) && full_rows(a) {
                    return false;
                }
                if full_columns(a) {
                    for c in a.column..a.column + a.width {
                        // the new style is the old one with one attribute changed: which
                        // attribute and how is C30's business; here the style is the
                        // targeted attribute and the engine's answer is taken
                        let now = read_line(w.primary.model(), (a.sheet, true, c)).map(|x| x.0.style).unwrap_or_else(|e| format!("<err {e}>"));
                        if let Some(e) = self.prim.entry((a.sheet, true, c)) {
                            e.style = if clear { "-".into() } else { now };
                        }
                    }
                } else if full_rows(a) {
                    for r in a.row..a.row + a.height {
                        let now = read_line(w.primary.model(), (a.sheet, false, r)).map(|x| x.0.style).unwrap_or_else(|e| format!("<err {e}>"));
                        if let Some(e) = self.prim.entry((a.sheet, false, r)) {
                            e.style = if clear { "-".into() } else { now };
                        }
                    }
                }
                // a partial area touches cells only: no line attribute may change
                true
            }
            _ => false,
        }
    }
}

impl Oracle for LineAttrs {
    fn init(&mut self, w: &World) {
        self.prim = RefLines::new(&w.primary_initial);
        self.bare = RefLines::new(&w.bare_initial);
        self.base = w.bare.as_ref().and_then(|m| crate::snap::style_of_index(&m.workbook.styles, 0));
        self.lens = w.primary.lens();
    }

    fn after(&mut self, w: &mut World, ev: &Ev, res: &StepRes, idx: usize) -> Verdict {
        let kind = ev.kind();
        if let Some(p) = &res.panic {
            return Verdict::Violation(Violation::simple("panic", idx, kind, "panic", p.clone()));
        }
        let lens = w.primary.lens();
        let (u0, r0, _) = self.lens;
        self.lens = lens;
        let mut culprit = "?";
        match ev {
            Ev::Bare { op } => {
                culprit = "bare";
                if res.result.is_ok() {
                    self.apply_bare(op);
                    self.bare_ops += 1;
                } else {
                    self.rejected += 1;
                }
            }
            Ev::Undo | Ev::Redo => {
                culprit = "primary";
                if res.result.is_ok() {
                    let undone = matches!(ev, Ev::Undo) && lens.0 + 1 == u0 && self.cursor > 0;
                    let redone = matches!(ev, Ev::Redo) && lens.1 + 1 == r0 && self.cursor + 1 < self.stack.len();
                    if undone {
                        // undoing an operation the model does not describe (an insertion, a
                        // paste ...) is C01's business: take the result as it is
                        let modelled = self.stack[self.cursor].1;
                        self.cursor -= 1;
                        if modelled {
                            self.prim.touched = self.stack[self.cursor].0.clone();
                            self.undo_redo += 1;
                        } else {
                            self.prim.resync(w.primary.model());
                            self.stack[self.cursor].0 = self.prim.touched.clone();
                            self.resyncs += 1;
                        }
                    } else if redone {
                        self.cursor += 1;
                        if self.stack[self.cursor].1 {
                            self.prim.touched = self.stack[self.cursor].0.clone();
                            self.undo_redo += 1;
                        } else {
                            self.prim.resync(w.primary.model());
                            self.stack[self.cursor].0 = self.prim.touched.clone();
                            self.resyncs += 1;
                        }
                    } else if lens.0 != u0 || lens.1 != r0 {
                        // history moved in a way the cursor cannot follow
                        self.prim.resync(w.primary.model());
                        self.stack = vec![(self.prim.touched.clone(), true)];
                        self.cursor = 0;
                        self.resyncs += 1;
                    }
                }
            }
            Ev::Restart { .. } | Ev::XlsxRestart => {
                if res.restarted {
                    if matches!(ev, Ev::Restart { dirty: false }) {
                        // same workbook, history gone
                        self.stack = vec![(self.prim.touched.clone(), true)];
                        self.cursor = 0;
                    } else {
                        self.prim.resync(w.primary.model());
                        self.stack = vec![(self.prim.touched.clone(), true)];
                        self.cursor = 0;
                        self.resyncs += 1;
                    }
                }
            }
            _ if ev.is_user_op() => {
                culprit = "primary";
                if res.result.is_ok() {
                    let modelled = self.apply_user(w, ev);
                    if modelled {
                        self.user_ops += 1;
                    } else {
                        self.prim.resync(w.primary.model());
                        self.resyncs += 1;
                    }
                    if lens.0 == u0 + 1 {
                        self.stack.truncate(self.cursor + 1);
                        self.stack.push((self.prim.touched.clone(), modelled));
                        self.cursor += 1;
                    } else if lens.0 != u0 {
                        self.stack = vec![(self.prim.touched.clone(), true)];
                        self.cursor = 0;
                    }
                } else {
                    self.rejected += 1;
                }
            }
            _ => {}
        }
        let mut d = self.prim.compare(w.primary.model(), "primary");
        if let Some(b) = &w.bare {
            d.extend(self.bare.compare(b, "bare"));
        }
        self.comparisons += 1;
        if d.is_empty() {
            return Verdict::Ok;
        }
        let _ = culprit;
        Verdict::Violation(Violation::from_diff(
            "line-attributes",
            idx,
            idx,
            kind,
            d,
            "a row/column attribute differs from the reference model (expected = every line keeps its last assigned size / hidden flag / style; untouched lines keep what they started with)".into(),
        ))
    }

    fn exercised(&self) -> u64 {
        self.bare_ops + self.user_ops + self.undo_redo
    }
    fn counters(&self) -> Vec<(String, u64)> {
        vec![
            ("comparisons_after_events".into(), self.comparisons),
            ("bare_model_setter_calls_modelled".into(), self.bare_ops),
            ("user_level_line_operations_modelled".into(), self.user_ops),
            ("undo_redo_followed_by_the_cursor".into(), self.undo_redo),
            ("rejected_calls_expected_to_change_nothing".into(), self.rejected),
            ("reference_resynchronised_after_unmodelled_event".into(), self.resyncs),
        ]
    }
}

// ---------------------------------------------------------------------------
// C30

#[derive(Clone, Copy, Debug, PartialEq, Eq, PartialOrd, Ord)]
pub enum Target {
    Cell(u32, i32, i32),
    Row(u32, i32),
    Col(u32, i32),
}

fn target_str(t: &Target) -> String {
    match t {
        Target::Cell(s, r, c) => format!("{s}!R{r}C{c}"),
        Target::Row(s, r) => format!("{s}!row{r}"),
        Target::Col(s, c) => format!("{s}!col{c}"),
    }
}

fn read_target(model: &Model, t: &Target) -> String {
    let r = match t {
        Target::Cell(s, r, c) => model.get_style_for_cell(*s, *r, *c).map(|s| style_json(&s)),
        Target::Row(s, r) => model.get_row_style(*s, *r).map(|o| o.map(|s| style_json(&s)).unwrap_or_else(|| "<none>".into())),
        Target::Col(s, c) => model.get_column_style(*s, *c).map(|o| o.map(|s| style_json(&s)).unwrap_or_else(|| "<none>".into())),
    };
    r.unwrap_or_else(|e| format!("<err {e}>"))
}

pub struct StyleReadback {
    prim: BTreeMap<Target, String>,
    bare: BTreeMap<Target, String>,
    assignments: u64,
    readbacks: u64,
    invalidations: u64,
    distinct_styles: std::collections::BTreeSet<u64>,
}

impl StyleReadback {
    pub fn new() -> StyleReadback {
        StyleReadback { prim: BTreeMap::new(), bare: BTreeMap::new(), assignments: 0, readbacks: 0, invalidations: 0, distinct_styles: Default::default() }
    }
    fn note(&mut self, js: &str) {
        let mut h = crate::rng::Fnv(0xcbf2_9ce4_8422_2325);
        h.write_str(js);
        self.distinct_styles.insert(h.finish());
        self.assignments += 1;
    }
    fn drop_area(&mut self, a: &A) {
        let inside = |t: &Target| match t {
            Target::Cell(s, r, c) => *s == a.sheet && *r >= a.row && *r < a.row + a.height && *c >= a.column && *c < a.column + a.width,
            Target::Row(s, r) => *s == a.sheet && *r >= a.row && *r < a.row + a.height,
            Target::Col(s, c) => *s == a.sheet && *c >= a.column && *c < a.column + a.width,
        };
        let n = self.prim.len();
        self.prim.retain(|t, _| !inside(t));
        self.invalidations += (n - self.prim.len()) as u64;
    }
}

impl Oracle for StyleReadback {
    fn init(&mut self, _w: &World) {}

    fn after(&mut self, w: &mut World, ev: &Ev, res: &StepRes, idx: usize) -> Verdict {
        let kind = ev.kind();
        if let Some(p) = &res.panic {
            return Verdict::Violation(Violation::simple("panic", idx, kind, "panic", p.clone()));
        }
        let ok = res.result.is_ok();
        match ev {
            Ev::Bare { op } if ok => match op {
                BareOp::CellStyle { sheet, row, col, style } => {
                    let js = style_json(style);
                    self.note(&js);
                    self.bare.insert(Target::Cell(*sheet, *row, *col), js);
                }
                BareOp::RowStyle { sheet, row, style } => {
                    let js = style_json(style);
                    self.note(&js);
                    self.bare.insert(Target::Row(*sheet, *row), js);
                }
                BareOp::ColStyle { sheet, col, style } => {
                    let js = style_json(style);
                    self.note(&js);
                    self.bare.insert(Target::Col(*sheet, *col), js);
                }
                BareOp::RowStyleDelete { sheet, row } => {
                    self.bare.remove(&Target::Row(*sheet, *row));
                }
                BareOp::ColStyleDelete { sheet, col } => {
                    self.bare.remove(&Target::Col(*sheet, *col));
                }
                _ => {}
            },
            Ev::Bare { .. } => {}
            Ev::PasteStyles { sheet, r0, c0, r1, c1, styles } if ok && !styles.is_empty() && !styles[0].is_empty() => {
                let h = styles.len() as i32;
                let wd = styles[0].len() as i32;
                let last_r = (*r1).max(r0 + h - 1);
                let last_c = (*c1).max(c0 + wd - 1);
                for r in *r0..=last_r {
                    for c in *c0..=last_c {
                        let st = &styles[((r - r0) % h) as usize][((c - c0) % wd) as usize];
                        let js = style_json(st);
                        self.note(&js);
                        self.prim.insert(Target::Cell(*sheet, r, c), js);
                    }
                }
            }
            Ev::StyleRange { a, .. } | Ev::ClearFormatting { a } | Ev::ClearAll { a } => self.drop_area(a),
            // a border is drawn on both sides of an edge: the cells around the area change too
            Ev::Border { a, .. } => self.drop_area(&A { sheet: a.sheet, row: a.row - 1, column: a.column - 1, width: a.width + 2, height: a.height + 2 }),
            Ev::ApplyNamedStyle { sheet, r0, c0, r1, c1, .. } => {
                self.drop_area(&A { sheet: *sheet, row: *r0, column: *c0, width: c1 - c0 + 1, height: r1 - r0 + 1 })
            }
            Ev::Input { sheet, row, col, .. } | Ev::Retype { sheet, row, col } => {
                self.drop_area(&A { sheet: *sheet, row: *row, column: *col, width: 1, height: 1 })
            }
            Ev::ClearContents { .. }
            | Ev::ColsWidth { .. }
            | Ev::RowsHeight { .. }
            | Ev::ColsHidden { .. }
            | Ev::RowsHidden { .. }
            | Ev::Restart { dirty: false }
            | Ev::Save
            | Ev::Tick { .. }
            | Ev::Flush
            | Ev::Deliver { .. }
            | Ev::Evaluate
            | Ev::Pause
            | Ev::Resume => {}
            _ if ev.is_user_op() || matches!(ev, Ev::Undo | Ev::Redo | Ev::Restart { .. } | Ev::XlsxRestart) => {
                // anything else may move or restyle cells in ways this model does not follow
                self.invalidations += self.prim.len() as u64;
                self.prim.clear();
            }
            _ => {}
        }
        let mut d = Vec::new();
        for (t, exp) in &self.prim {
            let act = read_target(w.primary.model(), t);
            self.readbacks += 1;
            if &act != exp {
                d.push(DiffLine { facet: "style.readback".into(), at: format!("primary:{}", target_str(t)), expected: exp.clone(), actual: act });
            }
        }
        if let Some(b) = &w.bare {
            for (t, exp) in &self.bare {
                let act = read_target(b, t);
                self.readbacks += 1;
                if &act != exp {
                    d.push(DiffLine { facet: "style.readback".into(), at: format!("bare:{}", target_str(t)), expected: exp.clone(), actual: act });
                }
            }
        }
        if d.is_empty() {
            return Verdict::Ok;
        }
        Verdict::Violation(Violation::from_diff(
            "style-readback",
            idx,
            idx,
            kind,
            d,
            "a cell, row or column does not read back the style last assigned to it (expected = assigned)".into(),
        ))
    }

    fn exercised(&self) -> u64 {
        self.assignments
    }
    fn counters(&self) -> Vec<(String, u64)> {
        vec![
            ("style_assignments_tracked".into(), self.assignments),
            ("style_readbacks_compared".into(), self.readbacks),
            ("tracked_targets_dropped_by_unmodelled_events".into(), self.invalidations),
            ("distinct_styles_assigned_in_run".into(), self.distinct_styles.len() as u64),
        ]
    }
}

// ---------------------------------------------------------------------------
// workload

fn rich_num_fmt(rng: &mut Rng) -> String {
    rng.pick(&[
        "general", "General", "GENERAL", "0", "0.00", "#,##0", "#,##0.00", "0%", "0.00%", "0.00E+00", "# ?/?", "# ??/??", "mm-dd-yy", "d-mmm-yy", "d-mmm", "mmm-yy",
        "h:mm AM/PM", "h:mm:ss AM/PM", "h:mm", "h:mm:ss", "m/d/yy h:mm", "#,##0 ;(#,##0)", "#,##0 ;[Red](#,##0)", "#,##0.00;(#,##0.00)", "#,##0.00;[Red](#,##0.00)",
        "mm:ss", "[h]:mm:ss", "mmss.0", "##0.0E+0", "@", "yyyy-mm-dd", "$#,##0.00", "0.000", "dd/mm/yyyy", "[$-409]d-mmm-yy", "\"x\"0", "[Red]0;-0", "0.0", "#", "",
    ])
    .to_string()
}

pub fn rich_style(rng: &mut Rng) -> Style {
    use ironcalc_base::types::*;
    let mut s = gen::style(rng);
    if rng.chance(0.6) {
        s.num_fmt = rich_num_fmt(rng);
    }
    if rng.chance(0.4) {
        s.font.name = rng.pick(&["Inter", "Arial", "Calibri", "Times New Roman", "ünï", ""]).to_string();
        s.font.family = *rng.pick(&[0, 1, 2, 3]);
        s.font.scheme = match rng.below(3) {
            0 => FontScheme::Minor,
            1 => FontScheme::Major,
            _ => FontScheme::None,
        };
        s.font.sz = *rng.pick(&[1, 8, 11, 12, 13, 72, 409]);
    }
    if rng.chance(0.3) {
        let item = |rng: &mut Rng| {
            if rng.chance(0.4) {
                None
            } else {
                Some(BorderItem {
                    style: match rng.below(9) {
                        0 => BorderStyle::Thin,
                        1 => BorderStyle::Medium,
                        2 => BorderStyle::Thick,
                        3 => BorderStyle::Double,
                        4 => BorderStyle::Dotted,
                        5 => BorderStyle::SlantDashDot,
                        6 => BorderStyle::MediumDashed,
                        7 => BorderStyle::MediumDashDotDot,
                        _ => BorderStyle::MediumDashDot,
                    },
                    color: gen::color(rng),
                })
            }
        };
        s.border = Border {
            diagonal_up: rng.chance(0.2),
            diagonal_down: rng.chance(0.2),
            left: item(rng),
            right: item(rng),
            top: item(rng),
            bottom: item(rng),
            diagonal: item(rng),
        };
    }
    if rng.chance(0.3) {
        s.alignment = Some(Alignment {
            horizontal: match rng.below(8) {
                0 => HorizontalAlignment::Center,
                1 => HorizontalAlignment::CenterContinuous,
                2 => HorizontalAlignment::Distributed,
                3 => HorizontalAlignment::Fill,
                4 => HorizontalAlignment::General,
                5 => HorizontalAlignment::Justify,
                6 => HorizontalAlignment::Left,
                _ => HorizontalAlignment::Right,
            },
            vertical: match rng.below(5) {
                0 => VerticalAlignment::Bottom,
                1 => VerticalAlignment::Center,
                2 => VerticalAlignment::Distributed,
                3 => VerticalAlignment::Justify,
                _ => VerticalAlignment::Top,
            },
            wrap_text: rng.chance(0.5),
        });
    }
    s
}

fn line_index(rng: &mut Rng, last: i32) -> i32 {
    match rng.below(20) {
        0 => last,
        1 => last - 1,
        _ => rng.range(1, 12) as i32,
    }
}

/// the per-run pool of styles: few enough that the same style is assigned to several
/// targets and alternates with near-identical ones (interning, deduplication)
fn pool_style(rng: &mut Rng, salt: u64) -> Style {
    let k = rng.below(10);
    let mut r = Rng::new(crate::rng::mix(salt, k, 0x5779_1e));
    rich_style(&mut r)
}

/// Events of the C29/C30 workloads. `styles`: weight of the style assignments.
pub fn line_event(rng: &mut Rng, w: &World, _p: &Profile, styles: bool) -> Option<(Ev, Option<String>)> {
    let salt = w.init.hash_key;
    let nsheets_bare = w.bare.as_ref().map(|m| m.workbook.worksheets.len() as u32).unwrap_or(0);
    let on_bare = nsheets_bare > 0 && rng.chance(0.5);
    if on_bare {
        let sheet = rng.below(nsheets_bare.min(3) as u64) as u32;
        let col = line_index(rng, LAST_COL);
        let row = line_index(rng, LAST_ROW);
        let size = *rng.pick(&[0.0, 1.0, 10.0, 25.0, 90.0, 135.5, 300.0]);
        let weights: [u32; 10] = if styles { [2, 2, 20, 4, 2, 2, 20, 4, 40, 4] } else { [16, 16, 12, 8, 16, 16, 12, 8, 2, 4] };
        let op = match rng.weighted(&weights) {
            0 => BareOp::ColWidth { sheet, col, w: size },
            1 => BareOp::ColHidden { sheet, col, hidden: rng.chance(0.5) },
            2 => BareOp::ColStyle { sheet, col, style: pool_style(rng, salt) },
            3 => BareOp::ColStyleDelete { sheet, col },
            4 => BareOp::RowHeight { sheet, row, h: size },
            5 => BareOp::RowHidden { sheet, row, hidden: rng.chance(0.5) },
            6 => BareOp::RowStyle { sheet, row, style: pool_style(rng, salt) },
            7 => BareOp::RowStyleDelete { sheet, row },
            8 => BareOp::CellStyle { sheet, row: rng.range(1, 8) as i32, col: rng.range(1, 8) as i32, style: pool_style(rng, salt) },
            _ => BareOp::Restart,
        };
        return Some((Ev::Bare { op }, None));
    }
    let sheet = 0u32;
    let c0 = line_index(rng, LAST_COL - 2);
    let r0 = line_index(rng, LAST_ROW - 2);
    let span = rng.range(0, 2) as i32;
    let weights: [u32; 8] = if styles { [2, 2, 2, 2, 10, 4, 70, 8] } else { [18, 18, 18, 18, 14, 8, 2, 4] };
    let ev = match rng.weighted(&weights) {
        0 => Ev::ColsWidth { sheet, c0, c1: c0 + span, w: *rng.pick(&[90.0, 20.0, 135.5, 1.0, 300.0]) },
        1 => Ev::RowsHeight { sheet, r0, r1: r0 + span, h: *rng.pick(&[25.0, 10.0, 40.5, 1.0, 100.0]) },
        2 => Ev::ColsHidden { sheet, c0, c1: c0 + span, hidden: rng.chance(0.5) },
        3 => Ev::RowsHidden { sheet, r0, r1: r0 + span, hidden: rng.chance(0.5) },
        4 => {
            let (path, value) = gen::style_path_value(rng);
            let a = match rng.below(3) {
                0 => A { sheet, row: 1, column: c0.min(12), width: 1 + span, height: LAST_ROW },
                1 => A { sheet, row: r0.min(12), column: 1, width: LAST_COL, height: 1 + span },
                _ => A { sheet, row: r0.min(12), column: c0.min(12), width: 1 + span, height: 2 },
            };
            Ev::StyleRange { a, path, value }
        }
        5 => {
            let a = match rng.below(3) {
                0 => A { sheet, row: 1, column: c0.min(12), width: 1 + span, height: LAST_ROW },
                1 => A { sheet, row: r0.min(12), column: 1, width: LAST_COL, height: 1 + span },
                _ => A { sheet, row: r0.min(12), column: c0.min(12), width: 1 + span, height: 2 },
            };
            Ev::ClearFormatting { a }
        }
        6 => {
            let h = rng.range(1, 2) as usize;
            let wd = rng.range(1, 2) as usize;
            let st = (0..h).map(|_| (0..wd).map(|_| pool_style(rng, salt)).collect()).collect();
            let r = rng.range(1, 8) as i32;
            let c = rng.range(1, 8) as i32;
            Ev::PasteStyles { sheet, r0: r, c0: c, r1: r + rng.range(0, 2) as i32, c1: c + rng.range(0, 2) as i32, styles: st }
        }
        _ => Ev::Restart { dirty: false },
    };
    Some((ev, None))
}


/// Model-level operations on the bare node (C27): sheets by explicit name (with names that
/// differ only in the case of a non-ASCII letter), typed inputs, structural edits.
pub fn model_event(rng: &mut Rng, w: &World, p: &Profile) -> Option<(Ev, Option<String>)> {
    let m = w.bare.as_ref()?;
    let n = m.workbook.worksheets.len() as u32;
    let sheet = rng.below(n.max(1) as u64) as u32;
    const NAMES: [&str; 14] = ["Data", "DATA", "Año", "AÑO", "año", "über", "ÜBER", "Straße", "STRASSE", "Élan", "élan", "Σ", "σ", "My Sheet"];
    let existing: Vec<String> = m.workbook.worksheets.iter().map(|s| s.get_name()).collect();
    // half of the time a name is derived from an existing one by changing case
    let name = if rng.chance(0.5) && !existing.is_empty() {
        let e = rng.pick(&existing).clone();
        match rng.below(3) {
            0 => e.to_uppercase(),
            1 => e.to_lowercase(),
            _ => e,
        }
    } else {
        rng.pick(&NAMES).to_string()
    };
    let row = rng.range(1, 12) as i32;
    let col = rng.range(1, 8) as i32;
    let k = rng.range(1, 3) as i32;
    let loc = gen::Loc::new(w.primary.lang, &m.workbook.settings.locale);
    let op = match rng.weighted(&[14, 8, 12, 6, 30, 5, 5, 5, 5, 5, 5]) {
        0 => BareOp::AddSheet { name },
        1 => BareOp::InsertSheet { name, index: rng.below(n as u64 + 1) as u32 },
        2 => BareOp::RenameSheet { index: sheet, name },
        3 => BareOp::DeleteSheet { index: sheet },
        4 => BareOp::Input { sheet, row, col, text: gen::value_text(rng, &loc, p) },
        5 => BareOp::InsertRows { sheet, row, n: k },
        6 => BareOp::InsertCols { sheet, col, n: k },
        7 => BareOp::DeleteRows { sheet, row, n: k },
        8 => BareOp::DeleteCols { sheet, col, n: k },
        9 => BareOp::MoveRows { sheet, row, n: 1, delta: rng.range(-3, 3) as i32 },
        _ => BareOp::MoveCols { sheet, col, n: 1, delta: rng.range(-3, 3) as i32 },
    };
    Some((Ev::Bare { op }, None))
}
