//! C05 / C31: every formula value is a fix point of its formula over the values around it.
//!
//! The engine is used as its own oracle, but cold: for a formula cell X the public
//! `Workbook` is cloned, every *other* formula, array anchor and spill cell is replaced by
//! a literal cell carrying the typed value it currently shows (written straight into
//! `sheet_data`, nothing is re-typed), X's own spill children are removed, and the clone
//! is evaluated in a scratch `Model` (fresh per-cell state, another evaluation order, no
//! history). X — and for an array anchor its whole block — must show what it shows in the
//! live node. C31 adds the structural clauses of spills.

use crate::deps;
use crate::ev::Ev;
use crate::oracle::{Abandon, Oracle, Verdict, Violation};
use crate::snap::{cell_kind, typed_value, DiffLine};
use crate::world::{StepRes, World};
use ironcalc_base::types::{ArrayKind, Cell, FormulaValue, SpillValue, Workbook};
use ironcalc_base::Model;
use std::collections::BTreeMap;

type Pos = (u32, i32, i32);

fn literal_of(cell: &Cell, wb_strings: &mut Vec<String>) -> Option<Cell> {
    let lit = |v: &FormulaValue, s: i32, strings: &mut Vec<String>| -> Option<Cell> {
        Some(match v {
            FormulaValue::Unevaluated => return None,
            FormulaValue::Boolean(b) => Cell::BooleanCell { v: *b, s },
            FormulaValue::Number(n) => Cell::NumberCell { v: *n, s },
            FormulaValue::Text(t) => {
                strings.push(t.clone());
                Cell::SharedString { si: strings.len() as i32 - 1, s }
            }
            FormulaValue::Error { ei, .. } => Cell::ErrorCell { ei: ei.clone(), s },
        })
    };
    match cell {
        Cell::CellFormula { v, s, .. } | Cell::ArrayFormula { v, s, .. } => lit(v, *s, wb_strings),
        Cell::SpillCell { v, s, .. } => Some(match v {
            SpillValue::Boolean(b) => Cell::BooleanCell { v: *b, s: *s },
            SpillValue::Number(n) => Cell::NumberCell { v: *n, s: *s },
            SpillValue::Text(t) => {
                wb_strings.push(t.clone());
                Cell::SharedString { si: wb_strings.len() as i32 - 1, s: *s }
            }
            SpillValue::Error(e) => Cell::ErrorCell { ei: e.clone(), s: *s },
        }),
        _ => None,
    }
}

/// what X (and its block) shows: position -> "kind | typed value"
fn block_of(model: &Model, x: Pos) -> BTreeMap<(i32, i32), String> {
    let mut out = BTreeMap::new();
    let ws = match model.workbook.worksheets.get(x.0 as usize) {
        Some(w) => w,
        None => return out,
    };
    let cell = match ws.cell(x.1, x.2) {
        Some(c) => c,
        None => return out,
    };
    let (w, h) = match cell {
        Cell::ArrayFormula { r, .. } => (r.0.max(1), r.1.max(1)),
        _ => (1, 1),
    };
    let kind = match cell {
        // whether a 1x1 result is stored as an anchor is decided when the formula is typed
        Cell::ArrayFormula { kind: ArrayKind::Dynamic, r: (1, 1), .. } | Cell::CellFormula { .. } => "formula".to_string(),
        c => cell_kind(c),
    };
    out.insert((x.1, x.2), format!("{kind} | {}", typed_value(cell, &model.workbook.shared_strings)));
    for r in x.1..x.1 + h {
        for c in x.2..x.2 + w {
            if (r, c) == (x.1, x.2) {
                continue;
            }
            let v = match ws.cell(r, c) {
                Some(cell @ Cell::SpillCell { a, .. }) if *a == (x.1, x.2) => format!("spill | {}", typed_value(cell, &model.workbook.shared_strings)),
                Some(other) => format!("foreign {}", cell_kind(other)),
                None => "<absent>".to_string(),
            };
            out.insert((r, c), v);
        }
    }
    out
}

/// the scratch workbook for X
fn scratch_workbook(model: &Model, x: Pos) -> Option<Workbook> {
    let mut wb = model.workbook.clone();
    let mut strings = std::mem::take(&mut wb.shared_strings);
    // the children of a dynamic anchor are removed (its result spills again); the declared
    // block of a CSE anchor stays, with a sentinel in every child
    let x_is_cse = matches!(
        model.workbook.worksheets.get(x.0 as usize).and_then(|ws| ws.cell(x.1, x.2)),
        Some(Cell::ArrayFormula { kind: ArrayKind::Cse, .. })
    );
    for (si, ws) in wb.worksheets.iter_mut().enumerate() {
        let mut remove: Vec<(i32, i32)> = Vec::new();
        let mut replace: Vec<(i32, i32, Cell)> = Vec::new();
        for (r, row) in ws.sheet_data.iter() {
            for (c, cell) in row.iter() {
                let here = (si as u32, *r, *c);
                if here == x {
                    continue;
                }
                match cell {
                    Cell::SpillCell { a, s, .. } if si as u32 == x.0 && *a == (x.1, x.2) => {
                        if x_is_cse {
                            replace.push((*r, *c, Cell::SpillCell { a: *a, s: *s, v: SpillValue::Text("<not evaluated>".into()) }));
                        } else {
                            remove.push((*r, *c));
                        }
                    }
                    Cell::CellFormula { .. } | Cell::ArrayFormula { .. } | Cell::SpillCell { .. } => match literal_of(cell, &mut strings) {
                        Some(l) => replace.push((*r, *c, l)),
                        // an unevaluated neighbour: the state is not an evaluated one
                        None => return None,
                    },
                    _ => {}
                }
            }
        }
        for (r, c) in remove {
            if let Some(row) = ws.sheet_data.get_mut(&r) {
                row.remove(&c);
            }
        }
        for (r, c, l) in replace {
            if let Some(row) = ws.sheet_data.get_mut(&r) {
                row.insert(c, l);
            }
        }
    }
    wb.shared_strings = strings;
    // X starts unevaluated, 1x1 when dynamic
    if let Some(ws) = wb.worksheets.get_mut(x.0 as usize) {
        if let Some(row) = ws.sheet_data.get_mut(&x.1) {
            if let Some(cell) = row.get_mut(&x.2) {
                match cell {
                    Cell::CellFormula { v, .. } => *v = FormulaValue::Unevaluated,
                    Cell::ArrayFormula { v, r, kind, .. } => {
                        *v = FormulaValue::Unevaluated;
                        if matches!(kind, ArrayKind::Dynamic) {
                            *r = (1, 1);
                        }
                    }
                    _ => {}
                }
            }
        }
    }
    Some(wb)
}

#[derive(Clone, Copy, PartialEq, Eq)]
pub enum Which {
    /// C05: every formula
    All,
    /// C31: dynamic-array anchors, plus the structural clauses
    Spills,
}

pub struct FixPoint {
    which: Which,
    checked: u64,
    arrays_checked: u64,
    skipped_unevaluated: u64,
    scratch_failures: u64,
    events_probed: u64,
    circ_seen: u64,
    spill_errors_seen: u64,
    frames_checked: u64,
    on_cycle_skipped: u64,
    circ_probed: u64,
    perturbed: u64,
    pre_user: BTreeMap<Pos, String>,
    thorough: bool,
}

impl FixPoint {
    pub fn new(which: Which) -> FixPoint {
        FixPoint {
            which,
            checked: 0,
            arrays_checked: 0,
            skipped_unevaluated: 0,
            scratch_failures: 0,
            events_probed: 0,
            circ_seen: 0,
            spill_errors_seen: 0,
            frames_checked: 0,
            on_cycle_skipped: 0,
            circ_probed: 0,
            perturbed: 0,
            pre_user: BTreeMap::new(),
            thorough: std::env::var("VERIF_TIER").map(|t| t == "thorough").unwrap_or(false),
        }
    }

    fn probe(&mut self, w: &World, idx: usize, kind: &str) -> Option<Violation> {
        let model = w.primary.model();
        let lang = w.primary.lang;
        let units = deps::units(model);
        let mut d: Vec<DiffLine> = Vec::new();
        let limit = if self.thorough { usize::MAX } else { 16 };
        // deterministic sample: spread over the list
        let step = (units.len() / limit.max(1)).max(1);
        // A cell on a static dependency cycle is not re-evaluated cold: with its neighbours
        // frozen the cycle is cut, and whether a cycle that runs through an error-swallowing
        // or lazy function (COUNT, IF, IFERROR) "depends on its own value" is not decidable
        // from values. What is left for such cells is the converse clause, which holds by
        // construction: they are on a cycle, so #CIRC! is allowed there.
        let cyc = deps::on_cycle(&units);
        for (i, u) in units.iter().enumerate() {
            if i % step != 0 {
                continue;
            }
            if cyc.contains(&i) {
                self.on_cycle_skipped += 1;
                if self.which == Which::All && !u.is_array {
                    if let Some(line) = self.unjustified_circ(model, lang, (u.sheet, u.row, u.col)) {
                        d.push(line);
                    }
                }
                continue;
            }
            if self.which == Which::Spills && !u.is_dynamic {
                continue;
            }
            let x = (u.sheet, u.row, u.col);
            let live = block_of(model, x);
            if live.values().any(|v| v.contains("e:CIRC")) {
                self.circ_seen += 1;
            }
            if live.values().any(|v| v.contains("e:SPILL")) {
                self.spill_errors_seen += 1;
            }
            let mut wb = match scratch_workbook(model, x) {
                Some(wb) => wb,
                None => {
                    self.skipped_unevaluated += 1;
                    continue;
                }
            };
            // Metamorphic twist, in every other cold evaluation: a number is added far away
            // on every sheet, in a cell X does not read. It changes the used extent of the
            // sheets (which evaluation shortcuts may look at) and nothing X's value may
            // depend on.
            if !u.opaque && (i + idx) % 2 == 0 {
                let far = (3000 + (i as i32 % 7), 60 + (i as i32 % 5));
                let unread = |s: u32| !u.reads.iter().any(|r| r.contains(s, far.0, far.1));
                let mut all_unread = true;
                for si in 0..wb.worksheets.len() {
                    all_unread &= unread(si as u32);
                }
                if all_unread {
                    for ws in wb.worksheets.iter_mut() {
                        ws.sheet_data.entry(far.0).or_default().insert(far.1, Cell::NumberCell { v: 7.0, s: 0 });
                    }
                    self.perturbed += 1;
                }
            }
            let mut scratch = match Model::from_workbook(wb, lang) {
                Ok(m) => m,
                Err(_) => {
                    self.scratch_failures += 1;
                    continue;
                }
            };
            scratch.evaluate();
            let cold = block_of(&scratch, x);
            self.checked += 1;
            if u.is_array {
                self.arrays_checked += 1;
            }
            // the union of both blocks
            let keys: std::collections::BTreeSet<(i32, i32)> = live.keys().chain(cold.keys()).copied().collect();
            for k in keys {
                let a = live.get(&k).cloned().unwrap_or_else(|| "<outside the block>".into());
                let b = cold.get(&k).cloned().unwrap_or_else(|| "<outside the block>".into());
                if a != b {
                    d.push(DiffLine { facet: "cell.value".into(), at: format!("{}!R{}C{}", x.0, k.0, k.1), expected: format!("{b} (evaluated cold over the values around it; formula at {}!R{}C{})", x.0, x.1, x.2), actual: a });
                }
            }
        }
        if self.which == Which::Spills {
            d.extend(self.spill_structure(model));
        }
        if d.is_empty() {
            return None;
        }
        let name = if self.which == Which::All { "fix-point" } else { "spill-exact" };
        let _ = kind;
        Some(Violation::from_diff(name, idx, idx, "probe", d, "a formula does not show what it computes when evaluated over the values the cells around it show (expected = cold evaluation in a scratch model, actual = live node)".into()))
    }

    /// "A formula shows #CIRC! only if it is on such a cycle or reads a cell that shows it":
    /// X is on a static cycle and shows #CIRC!. In the dependency graph in which an IF whose
    /// condition can be told without evaluating a formula (a literal, a reference to a
    /// constant) reads only that condition and the branch it takes, X is on no cycle, reads
    /// nothing opaque, and none of the formulas it reads shows #CIRC!: then its evaluation
    /// does not depend on its own value and the #CIRC! is not justified.
    fn unjustified_circ(&mut self, model: &Model, _lang: &'static str, x: Pos) -> Option<DiffLine> {
        let live = block_of(model, x);
        let shown = live.get(&(x.1, x.2))?.clone();
        if !shown.contains("e:CIRC") {
            return None;
        }
        self.circ_probed += 1;
        let lazy = deps::units_lazy(model);
        let i = deps::unit_at(&lazy, x.0, x.1, x.2)?;
        if lazy[i].opaque || deps::on_cycle(&lazy).contains(&i) {
            return None;
        }
        // a precedent (through the lazy graph) that shows #CIRC! justifies it
        let e = deps::edges(&lazy);
        for j in &e[i] {
            let u = &lazy[*j];
            if u.opaque {
                return None;
            }
            let b = block_of(model, (u.sheet, u.row, u.col));
            if b.values().any(|v| v.contains("e:CIRC")) {
                return None;
            }
        }
        // ... or a constant cell holding the error
        for r in &lazy[i].reads {
            if let Some(ws) = model.workbook.worksheets.get(r.sheet as usize) {
                for (row, cols) in &ws.sheet_data {
                    if *row < r.r0 || *row > r.r1 {
                        continue;
                    }
                    for (c, cell) in cols {
                        if *c >= r.c0 && *c <= r.c1 && typed_value(cell, &model.workbook.shared_strings).contains("CIRC") && (r.sheet, *row, *c) != x {
                            return None;
                        }
                    }
                }
            }
        }
        Some(DiffLine {
            facet: "cell.value".into(),
            at: format!("{}!R{}C{}", x.0, x.1, x.2),
            expected: "not #CIRC! (with IF read lazily the formula is on no dependency cycle and nothing it reads shows #CIRC!)".into(),
            actual: shown,
        })
    }

    /// C31: no spilled value outside the current result of its formula (no orphan child)
    fn spill_structure(&self, model: &Model) -> Vec<DiffLine> {
        let mut d = Vec::new();
        for (si, ws) in model.workbook.worksheets.iter().enumerate() {
            for (r, row) in &ws.sheet_data {
                for (c, cell) in row {
                    match cell {
                        Cell::SpillCell { a, .. } => {
                            let ok = match ws.cell(a.0, a.1) {
                                // (#SPILL! shown by an anchor can also be an element of its result)
                                Some(Cell::ArrayFormula { r: dims, .. }) => *r >= a.0 && *r < a.0 + dims.1 && *c >= a.1 && *c < a.1 + dims.0,
                                _ => false,
                            };
                            if !ok {
                                d.push(DiffLine { facet: "spill".into(), at: format!("{si}!R{r}C{c}"), expected: "covered by the current result of its anchor".into(), actual: format!("spill cell of R{}C{} left behind", a.0, a.1) });
                            }
                        }
                        _ => {}
                    }
                }
            }
        }
        d
    }
}

fn user_content(model: &Model) -> BTreeMap<Pos, String> {
    let mut m = BTreeMap::new();
    for (si, ws) in model.workbook.worksheets.iter().enumerate() {
        for (r, row) in &ws.sheet_data {
            for (c, cell) in row {
                match cell {
                    Cell::SpillCell { .. } | Cell::EmptyCell { .. } => {}
                    Cell::CellFormula { f, .. } | Cell::ArrayFormula { f, .. } => {
                        m.insert((si as u32, *r, *c), format!("formula#{f}"));
                    }
                    other => {
                        m.insert((si as u32, *r, *c), typed_value(other, &model.workbook.shared_strings));
                    }
                }
            }
        }
    }
    m
}

impl Oracle for FixPoint {
    fn init(&mut self, _w: &World) {}

    fn before(&mut self, w: &World, ev: &Ev) {
        self.pre_user.clear();
        if self.which == Which::Spills && matches!(ev, Ev::Input { .. } | Ev::Evaluate | Ev::Resume) {
            self.pre_user = user_content(w.primary.model());
        }
    }

    fn after(&mut self, w: &mut World, ev: &Ev, res: &StepRes, idx: usize) -> Verdict {
        let kind = ev.kind();
        if let Some(p) = &res.panic {
            return Verdict::Abandon(Abandon(format!("panic in {kind}: {p}")));
        }
        if w.primary.stale || w.primary.paused {
            return Verdict::Ok;
        }
        // C31 (3): typing into one cell (or evaluating) never changes user content elsewhere
        if self.which == Which::Spills && res.result.is_ok() && !self.pre_user.is_empty() {
            let now = user_content(w.primary.model());
            let target = match ev {
                Ev::Input { sheet, row, col, .. } => Some((*sheet, *row, *col)),
                _ => None,
            };
            let mut d = Vec::new();
            for (p, v) in &self.pre_user {
                if Some(*p) == target {
                    continue;
                }
                self.frames_checked += 1;
                let have = now.get(p);
                // formula indices may be renumbered: only presence is compared for formulas
                let same = match (v.starts_with("formula#"), have) {
                    (true, Some(h)) => h.starts_with("formula#"),
                    (false, Some(h)) => h == v,
                    (_, None) => false,
                };
                if !same {
                    d.push(DiffLine { facet: "cell.value".into(), at: format!("{}!R{}C{}", p.0, p.1, p.2), expected: format!("{v} (user content before the event)"), actual: have.cloned().unwrap_or_else(|| "<absent>".into()) });
                }
            }
            if !d.is_empty() {
                return Verdict::Violation(Violation::from_diff("spill-overwrites", idx, idx, kind, d, "user content of a cell the event does not write changed".into()));
            }
        }
        // sampled events only: a probe costs one small evaluation per formula
        let h = crate::rng::mix(w.init.hash_key, idx as u64, 0xf1c5);
        if !(ev.is_user_op() || matches!(ev, Ev::Undo | Ev::Redo | Ev::Restart { .. } | Ev::Evaluate | Ev::Resume)) || h % 3 != 0 {
            return Verdict::Ok;
        }
        self.events_probed += 1;
        match self.probe(w, idx, kind) {
            Some(v) => Verdict::Violation(v),
            None => Verdict::Ok,
        }
    }

    fn finish(&mut self, w: &mut World, idx: usize) -> Verdict {
        if w.primary.stale || w.primary.paused {
            return Verdict::Ok;
        }
        self.events_probed += 1;
        match self.probe(w, idx, "end") {
            Some(v) => Verdict::Violation(v),
            None => Verdict::Ok,
        }
    }

    fn exercised(&self) -> u64 {
        self.checked
    }
    fn counters(&self) -> Vec<(String, u64)> {
        vec![
            ("formulas_re_evaluated_cold".into(), self.checked),
            ("of_which_array_anchors".into(), self.arrays_checked),
            ("states_probed".into(), self.events_probed),
            ("formulas_showing_circ_at_probe".into(), self.circ_seen),
            ("anchors_showing_spill_error_at_probe".into(), self.spill_errors_seen),
            ("user_cells_checked_by_the_frame_condition".into(), self.frames_checked),
            ("formulas_on_a_static_cycle_not_re_evaluated".into(), self.on_cycle_skipped),
            ("circ_on_a_static_cycle_probed_for_real_dependence".into(), self.circ_probed),
            ("cold_evaluations_with_an_unread_cell_added_far_away".into(), self.perturbed),
            ("skipped_neighbour_unevaluated".into(), self.skipped_unevaluated),
            ("scratch_model_could_not_be_built".into(), self.scratch_failures),
        ]
    }
}
