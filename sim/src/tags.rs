//! Classification tags of a violation, used only to match known findings
//! precisely (`requires_tags`). Computed from the executed trace and from the
//! state the violation was observed in.

use crate::deps;
use crate::ev::Rec;
use crate::oracle::Violation;
use crate::world::World;
use std::collections::HashSet;

pub fn compute(world: &World, trace: &[Rec], v: &Violation) -> Vec<String> {
    let mut tags: Vec<String> = Vec::new();
    // trace tags
    let mut kinds: Vec<&'static str> = trace.iter().filter(|r| r.result == "ok").map(|r| r.ev.kind()).collect();
    kinds.sort();
    kinds.dedup();
    for k in kinds {
        tags.push(format!("has:{k}"));
    }
    let non_en = world.init.lang != "en"
        || world.init.locale != "en"
        || trace.iter().any(|r| matches!(r.ev, crate::ev::Ev::SetLocale { .. } | crate::ev::Ev::SetLanguage { .. }));
    if non_en {
        tags.push("non-en".into());
    }
    // every difference is a formula text that gained implicit-intersection operators
    // (and the parentheses the printer puts around them)
    let bare = |t: &str| t.replace(['@', '(', ')'], "");
    if !v.diff.is_empty() && v.diff.iter().all(|l| l.facet == "cell.content" && l.actual != l.expected && l.actual.contains('@') && bare(&l.actual) == bare(&l.expected)) {
        tags.push("diff:only-added-intersection".into());
    }
    // the cold evaluation gives an array of another shape (or an array where the live node
    // shows a scalar): the formula's result depends on cells of its own potential spill area
    if v.oracle == "fix-point" || v.oracle == "spill-exact" || v.oracle == "schedule-independent" {
        let shape = |t: &str| t.split(" | ").next().unwrap_or("").to_string();
        if v.diff.iter().any(|l| {
            let (a, b) = (shape(&l.expected), shape(&l.actual));
            (a.starts_with("dyn ") || b.starts_with("dyn ")) && a != b
        }) {
            tags.push("diff:array-shape-differs".into());
        }
    }
    // every cell whose value differs carries a date/time number format (the clipboard
    // carries the text the editor shows; for such cells that text is a date without fraction)
    let value_cells: Vec<&String> = v.diff.iter().filter(|l| l.facet == "cell.value").map(|l| &l.at).collect();
    if !value_cells.is_empty()
        && value_cells.iter().all(|at| match deps::parse_at(at) {
            Some((s, r, c)) => world.primary.model().get_style_for_cell(s, r, c).map(|st| {
                let f = st.num_fmt.to_lowercase();
                f.contains('y') || f.contains('d') || f.contains("h:") || f.contains("mm")
            }).unwrap_or(false),
            None => false,
        })
    {
        tags.push("diff:value-cells-have-date-format".into());
    }
    // re-typing (C18/C10)
    if let Some(crate::ev::Ev::Retype { sheet, row, col }) = trace.get(v.culprit_event).map(|r| &r.ev) {
        if trace[..v.culprit_event.min(trace.len())].iter().any(|r| matches!(r.ev, crate::ev::Ev::SetLocale { .. } | crate::ev::Ev::SetLanguage { .. }) && r.result == "ok") {
            tags.push("trace:config-switch-before-retype".into());
        }
        if trace[..v.culprit_event.min(trace.len())].iter().any(|r| matches!(r.ev, crate::ev::Ev::ClearFormatting { .. } | crate::ev::Ev::ClearAll { .. } | crate::ev::Ev::PasteStyles { .. } | crate::ev::Ev::ApplyNamedStyle { .. }) && r.result == "ok") {
            tags.push("trace:formatting-cleared-before-retype".into());
        }
        if matches!(world.primary.model().workbook.worksheet(*sheet).ok().and_then(|ws| ws.cell(*row, *col)), Some(ironcalc_base::types::Cell::CellFormula { .. }) | Some(ironcalc_base::types::Cell::ArrayFormula { .. })) {
            tags.push("state:retyped-cell-is-formula".into());
        }
        if let Ok(st) = world.primary.model().get_style_for_cell(*sheet, *row, *col) {
            let f = st.num_fmt.to_lowercase();
            if f.contains('y') || f.contains('d') || f.contains("h:") || f.contains("mm") {
                tags.push("state:retyped-cell-has-date-format".into());
            }
        }
    }
    // state tags, on the primary node
    let model = world.primary.model();
    let units = deps::units(model);
    let cyc = deps::on_cycle(&units);
    let array_cyc: HashSet<usize> = {
        // cycles that involve at least one array unit
        let e = deps::edges(&units);
        let mut s = HashSet::new();
        for i in &cyc {
            // i is on a cycle; the cycle involves an array iff some array unit on a cycle is
            // mutually reachable with i — approximated by: i is an array, or reads/is read by an
            // array unit that is itself on a cycle
            if units[*i].is_array || e[*i].iter().any(|j| cyc.contains(j) && units[*j].is_array) || cyc.iter().any(|j| units[*j].is_array && e[*j].contains(i)) {
                s.insert(*i);
            }
        }
        s
    };
    if !cyc.is_empty() {
        tags.push("state:static-cycle".into());
    }
    if !array_cyc.is_empty() && !v.cells.is_empty() && v.facets.iter().all(|f| f.starts_with("cell.")) {
        let down = deps::downstream(&units, &array_cyc);
        let all_down = v.cells.iter().all(|at| match deps::parse_at(at) {
            // (a cell that differs only by being a spill child or not belongs to whichever array spills there)
            Some((s, r, c)) => deps::unit_at(&units, s, r, c).map(|u| down.contains(&u)).unwrap_or(at.starts_with('~')),
            None => false,
        });
        if all_down {
            tags.push("cells:downstream-of-array-cycle".into());
        }
    }
    // values downstream of a dynamic array
    let dyn_units: HashSet<usize> = units.iter().enumerate().filter(|(_, u)| u.is_dynamic).map(|(i, _)| i).collect();
    if !dyn_units.is_empty() && !v.cells.is_empty() && v.facets.iter().all(|f| f.starts_with("cell.")) {
        let down = deps::downstream(&units, &dyn_units);
        let all_down = v.cells.iter().all(|at| match deps::parse_at(at) {
            // (a cell that differs only by being a spill child or not belongs to whichever array spills there)
            Some((s, r, c)) => deps::unit_at(&units, s, r, c).map(|u| down.contains(&u)).unwrap_or(at.starts_with('~')),
            None => false,
        });
        if all_down {
            tags.push("cells:downstream-of-dynamic-array".into());
        }
    }
    // any cell currently showing #SPILL! (dynamic arrays competing for cells)
    let mut spill_err = false;
    for ws in &model.workbook.worksheets {
        for row in ws.sheet_data.values() {
            for cell in row.values() {
                if crate::snap::typed_value(cell, &model.workbook.shared_strings) == "e:SPILL" {
                    spill_err = true;
                }
            }
        }
    }
    if spill_err {
        tags.push("state:has-spill-error".into());
    }
    // a CSE array formula spanning more than one cell
    let mut cse_block = false;
    let mut ref_in_range = false;
    for (si, ws) in model.workbook.worksheets.iter().enumerate() {
        for (r, row) in &ws.sheet_data {
            for (c, cell) in row {
                if let ironcalc_base::types::Cell::ArrayFormula { kind: ironcalc_base::types::ArrayKind::Cse, r: (bw, bh), .. } = cell {
                    if *bw > 1 || *bh > 1 {
                        cse_block = true;
                    }
                }
                if matches!(cell, ironcalc_base::types::Cell::CellFormula { .. } | ironcalc_base::types::Cell::ArrayFormula { .. }) {
                    if let Ok(t) = model.get_localized_cell_content(si as u32, *r, *c) {
                        // an error literal as an end point of a range: E6:#REF!, #REF!:H9
                        if t.contains(":#") || t.contains("!:") || t.contains("?:") {
                            ref_in_range = true;
                        }
                    }
                }
            }
        }
    }
    for l in &v.diff {
        for t in [&l.expected, &l.actual] {
            if l.facet == "cell.content" && (t.contains(":#") || t.contains("!:") || t.contains("?:")) {
                ref_in_range = true;
            }
        }
    }
    if cse_block {
        tags.push("state:has-cse-block".into());
    }
    if ref_in_range {
        tags.push("state:error-as-range-end".into());
    }
    // coordinates at the edge of the grid anywhere in the trace (cells, references)
    let edge = trace.iter().any(|r| {
        let js = serde_json::to_string(&r.ev).unwrap_or_default();
        js.contains("10485") || js.contains("1638") || js.contains("XF")
    });
    if edge {
        tags.push("trace:grid-edge".into());
    }
    if let Some(rec) = trace.get(v.culprit_event) {
        if rec.result.starts_with("err") {
            tags.push("culprit:rejected".into());
        }
    }
    // undo of a deletion: are all differences outside the band that was deleted and re-inserted?
    if let Some(rec) = trace.get(v.culprit_event) {
        let band: Option<(u32, bool, i32, i32)> = match &rec.ev {
            crate::ev::Ev::DeleteRows { sheet, row, n } => Some((*sheet, true, *row, *row + *n - 1)),
            crate::ev::Ev::DeleteCols { sheet, col, n } => Some((*sheet, false, *col, *col + *n - 1)),
            _ => None,
        };
        if let Some((sheet, rows, lo, hi)) = band {
            let only_cells_cf_links = v.facets.iter().all(|f| f.starts_with("cell.") || f == "cf" || f == "link");
            let mut outside = only_cells_cf_links;
            for at in &v.cells {
                if at.starts_with('~') {
                    // a spill cell present / absent: follows from its anchor
                    continue;
                }
                if let Some((s, r, c)) = deps::parse_at(at) {
                    let x = if rows { r } else { c };
                    if s == sheet && x >= lo && x <= hi {
                        outside = false;
                    }
                }
            }
            for l in &v.diff {
                if l.facet == "link" {
                    if let Some((s, r, c)) = deps::parse_at(&l.at) {
                        let x = if rows { r } else { c };
                        if s == sheet && x >= lo && x <= hi {
                            outside = false;
                        }
                    }
                }
            }
            if outside {
                tags.push("diff:outside-deleted-band".into());
            }
        }
    }
    tags.sort();
    tags
}
