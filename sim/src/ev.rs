//! Events: everything that can happen to the simulated deployment. Each event
//! carries concrete arguments, so a recorded list is self-contained and replay
//! needs no generator and no PRNG.

use ironcalc_base::cf_types::CfRuleInput;
use ironcalc_base::types::{Link, Style, StyleIncludes, Theme};
use serde::{Deserialize, Serialize};

#[derive(Serialize, Deserialize, Clone, Debug, PartialEq)]
pub struct A {
    pub sheet: u32,
    pub row: i32,
    pub column: i32,
    pub width: i32,
    pub height: i32,
}

impl A {
    pub fn area(&self) -> ironcalc_base::expressions::types::Area {
        ironcalc_base::expressions::types::Area {
            sheet: self.sheet,
            row: self.row,
            column: self.column,
            width: self.width,
            height: self.height,
        }
    }
}

/// Operations on the bare `Model` of the world (C29/C30): the statement's observation
/// points are `Model` setters and getters, which `UserModel` only exposes read-only.
#[derive(Serialize, Deserialize, Clone, Debug, PartialEq)]
#[serde(tag = "o")]
pub enum BareOp {
    ColWidth { sheet: u32, col: i32, w: f64 },
    ColHidden { sheet: u32, col: i32, hidden: bool },
    ColStyle { sheet: u32, col: i32, style: Style },
    ColStyleDelete { sheet: u32, col: i32 },
    RowHeight { sheet: u32, row: i32, h: f64 },
    RowHidden { sheet: u32, row: i32, hidden: bool },
    RowStyle { sheet: u32, row: i32, style: Style },
    RowStyleDelete { sheet: u32, row: i32 },
    CellStyle { sheet: u32, row: i32, col: i32, style: Style },
    /// to_bytes -> from_bytes of the bare model
    Restart,
    // ---- model-level operations (C27 speaks of "user-model and model operations") ----
    AddSheet { name: String },
    InsertSheet { name: String, index: u32 },
    RenameSheet { index: u32, name: String },
    DeleteSheet { index: u32 },
    Input { sheet: u32, row: i32, col: i32, text: String },
    InsertRows { sheet: u32, row: i32, n: i32 },
    InsertCols { sheet: u32, col: i32, n: i32 },
    DeleteRows { sheet: u32, row: i32, n: i32 },
    DeleteCols { sheet: u32, col: i32, n: i32 },
    MoveRows { sheet: u32, row: i32, n: i32, delta: i32 },
    MoveCols { sheet: u32, col: i32, n: i32, delta: i32 },
}

#[derive(Serialize, Deserialize, Clone, Debug, PartialEq)]
#[serde(tag = "k")]
pub enum Ev {
    // ---- history-recording user operations -------------------------------
    Input { sheet: u32, row: i32, col: i32, text: String },
    ArrayFormula { sheet: u32, row: i32, col: i32, w: i32, h: i32, text: String },
    ClearAll { a: A },
    ClearContents { a: A },
    ClearFormatting { a: A },
    StyleRange { a: A, path: String, value: String },
    Border { a: A, kind: String, style: String, color: String },
    PasteStyles { sheet: u32, r0: i32, c0: i32, r1: i32, c1: i32, styles: Vec<Vec<Style>> },
    InsertRows { sheet: u32, row: i32, n: i32 },
    InsertCols { sheet: u32, col: i32, n: i32 },
    DeleteRows { sheet: u32, row: i32, n: i32 },
    DeleteCols { sheet: u32, col: i32, n: i32 },
    MoveRows { sheet: u32, row: i32, n: i32, delta: i32 },
    MoveCols { sheet: u32, col: i32, n: i32, delta: i32 },
    ColsWidth { sheet: u32, c0: i32, c1: i32, w: f64 },
    RowsHeight { sheet: u32, r0: i32, r1: i32, h: f64 },
    ColsHidden { sheet: u32, c0: i32, c1: i32, hidden: bool },
    RowsHidden { sheet: u32, r0: i32, r1: i32, hidden: bool },
    NewSheet,
    DeleteSheet { sheet: u32 },
    DuplicateSheet { sheet: u32 },
    RenameSheet { sheet: u32, name: String },
    MoveSheet { from: u32, to: u32 },
    HideSheet { sheet: u32 },
    UnhideSheet { sheet: u32 },
    SheetColor { sheet: u32, color: String },
    FrozenRows { sheet: u32, n: i32 },
    FrozenCols { sheet: u32, n: i32 },
    GridLines { sheet: u32, show: bool },
    NewName { name: String, scope: Option<u32>, formula: String },
    UpdateName { name: String, scope: Option<u32>, new_name: String, new_scope: Option<u32>, formula: String },
    DeleteName { name: String, scope: Option<u32> },
    SetLink { sheet: u32, row: i32, col: i32, link: Link, label: Option<String> },
    DeleteLink { sheet: u32, row: i32, col: i32 },
    AddCf { sheet: u32, range: String, rule: CfRuleInput },
    UpdateCf { sheet: u32, index: u32, range: String, rule: CfRuleInput },
    DeleteCf { sheet: u32, index: u32 },
    RaiseCf { sheet: u32, index: u32 },
    LowerCf { sheet: u32, index: u32 },
    CreateNamedStyle { name: String, style: Style, includes: StyleIncludes },
    UpdateNamedStyle { name: String, new_name: String, style: Style, includes: StyleIncludes },
    DeleteNamedStyle { name: String },
    ApplyNamedStyle { sheet: u32, r0: i32, c0: i32, r1: i32, c1: i32, name: String },
    /// select source range on `src_sheet`, copy, select the target cell on
    /// `dst_sheet`, paste (cut when `cut`).
    CopyPaste { src_sheet: u32, r0: i32, c0: i32, r1: i32, c1: i32, dst_sheet: u32, dr: i32, dc: i32, cut: bool },
    PasteCsv { a: A, csv: String },
    AutoFillRows { a: A, to_row: i32 },
    AutoFillCols { a: A, to_col: i32 },
    SetLocale { locale: String },
    SetTimezone { tz: String },
    SetWbName { name: String },
    SetTheme { theme: Theme },
    // ---- history machinery ------------------------------------------------
    Undo,
    Redo,
    // ---- per-user, not recorded ------------------------------------------
    SelectSheet { sheet: u32 },
    SelectCell { row: i32, col: i32 },
    SelectRange { r0: i32, c0: i32, r1: i32, c1: i32 },
    Arrow { dir: u8 },
    PageDown,
    PageUp,
    AreaSelecting { row: i32, col: i32 },
    ExpandRange { key: String },
    NavEdge { dir: u8 },
    WindowSize { w: f64, h: f64 },
    SetLanguage { lang: String },
    Pause,
    Resume,
    Evaluate,
    // ---- world events (other parties, storage, time) ------------------------
    Flush,
    Deliver { follower: usize },
    Save,
    Restart { dirty: bool },
    XlsxRestart,
    /// export the primary's workbook through the simulated disk (with a write-fault
    /// plan, possibly empty), import what was written, hand both to the oracle
    XlsxExportImport { plan: crate::xlsxfault::WritePlan },
    /// take a valid package (the primary's export, or a fixture from /repo/xlsx/tests),
    /// damage it, import it (optionally through a fault-injecting reader)
    CorruptImport {
        fixture: Option<String>,
        corrupt: crate::xlsxfault::Corrupt,
        read: Option<crate::xlsxfault::ReadPlan>,
        /// also evaluate the imported workbook (C08 looks at computed values; C25 speaks of
        /// the import alone: import + Model::from_workbook)
        #[serde(default)]
        evaluate: bool,
    },
    Tick { ms: u64 },
    Bare { op: BareOp },
    // ---- probes that are user-level actions -------------------------------
    Retype { sheet: u32, row: i32, col: i32 },
    InsertThenDelete { sheet: u32, rows: bool, at: i32, n: i32 },
}

impl Ev {
    pub fn kind(&self) -> &'static str {
        use Ev::*;
        match self {
            Input { .. } => "Input",
            ArrayFormula { .. } => "ArrayFormula",
            ClearAll { .. } => "ClearAll",
            ClearContents { .. } => "ClearContents",
            ClearFormatting { .. } => "ClearFormatting",
            StyleRange { .. } => "StyleRange",
            Border { .. } => "Border",
            PasteStyles { .. } => "PasteStyles",
            InsertRows { .. } => "InsertRows",
            InsertCols { .. } => "InsertCols",
            DeleteRows { .. } => "DeleteRows",
            DeleteCols { .. } => "DeleteCols",
            MoveRows { .. } => "MoveRows",
            MoveCols { .. } => "MoveCols",
            ColsWidth { .. } => "ColsWidth",
            RowsHeight { .. } => "RowsHeight",
            ColsHidden { .. } => "ColsHidden",
            RowsHidden { .. } => "RowsHidden",
            NewSheet => "NewSheet",
            DeleteSheet { .. } => "DeleteSheet",
            DuplicateSheet { .. } => "DuplicateSheet",
            RenameSheet { .. } => "RenameSheet",
            MoveSheet { .. } => "MoveSheet",
            HideSheet { .. } => "HideSheet",
            UnhideSheet { .. } => "UnhideSheet",
            SheetColor { .. } => "SheetColor",
            FrozenRows { .. } => "FrozenRows",
            FrozenCols { .. } => "FrozenCols",
            GridLines { .. } => "GridLines",
            NewName { .. } => "NewName",
            UpdateName { .. } => "UpdateName",
            DeleteName { .. } => "DeleteName",
            SetLink { .. } => "SetLink",
            DeleteLink { .. } => "DeleteLink",
            AddCf { .. } => "AddCf",
            UpdateCf { .. } => "UpdateCf",
            DeleteCf { .. } => "DeleteCf",
            RaiseCf { .. } => "RaiseCf",
            LowerCf { .. } => "LowerCf",
            CreateNamedStyle { .. } => "CreateNamedStyle",
            UpdateNamedStyle { .. } => "UpdateNamedStyle",
            DeleteNamedStyle { .. } => "DeleteNamedStyle",
            ApplyNamedStyle { .. } => "ApplyNamedStyle",
            CopyPaste { cut: false, .. } => "CopyPaste",
            CopyPaste { cut: true, .. } => "CutPaste",
            PasteCsv { .. } => "PasteCsv",
            AutoFillRows { .. } => "AutoFillRows",
            AutoFillCols { .. } => "AutoFillCols",
            SetLocale { .. } => "SetLocale",
            SetTimezone { .. } => "SetTimezone",
            SetWbName { .. } => "SetWbName",
            SetTheme { .. } => "SetTheme",
            Undo => "Undo",
            Redo => "Redo",
            SelectSheet { .. } => "SelectSheet",
            SelectCell { .. } => "SelectCell",
            SelectRange { .. } => "SelectRange",
            Arrow { .. } => "Arrow",
            PageDown => "PageDown",
            PageUp => "PageUp",
            AreaSelecting { .. } => "AreaSelecting",
            ExpandRange { .. } => "ExpandRange",
            NavEdge { .. } => "NavEdge",
            WindowSize { .. } => "WindowSize",
            SetLanguage { .. } => "SetLanguage",
            Pause => "Pause",
            Resume => "Resume",
            Evaluate => "Evaluate",
            Flush => "Flush",
            Deliver { .. } => "Deliver",
            Save => "Save",
            Restart { dirty: false } => "RestartClean",
            Restart { dirty: true } => "RestartDirty",
            XlsxRestart => "XlsxRestart",
            XlsxExportImport { .. } => "XlsxExportImport",
            CorruptImport { .. } => "CorruptImport",
            Tick { .. } => "Tick",
            Bare { .. } => "Bare",
            Retype { .. } => "Retype",
            InsertThenDelete { .. } => "InsertThenDelete",
        }
    }

    /// True for calls of the user-model operation catalogue that may record a
    /// history entry (the subject of C01/C02/C04).
    pub fn is_user_op(&self) -> bool {
        use Ev::*;
        !matches!(
            self,
            Undo | Redo
                | SelectSheet { .. }
                | SelectCell { .. }
                | SelectRange { .. }
                | Arrow { .. }
                | PageDown
                | PageUp
                | AreaSelecting { .. }
                | ExpandRange { .. }
                | NavEdge { .. }
                | WindowSize { .. }
                | SetLanguage { .. }
                | Pause
                | Resume
                | Evaluate
                | Flush
                | Deliver { .. }
                | Save
                | Restart { .. }
                | XlsxRestart
                | XlsxExportImport { .. }
                | CorruptImport { .. }
                | Tick { .. }
                | Bare { .. }
        )
    }

    pub fn is_world(&self) -> bool {
        use Ev::*;
        matches!(
            self,
            Flush | Deliver { .. } | Save | Restart { .. } | XlsxRestart | XlsxExportImport { .. } | CorruptImport { .. } | Tick { .. } | Bare { .. }
        )
    }
}

/// One recorded step of a run.
#[derive(Serialize, Deserialize, Clone, Debug)]
pub struct Rec {
    pub t_ms: u64,
    pub ev: Ev,
    /// label of the injected fault class, if the generator meant this call to
    /// be rejected (C04) — informational, replay does not depend on it.
    #[serde(default, skip_serializing_if = "Option::is_none")]
    pub fault: Option<String>,
    /// "ok" | "err: …" | "panic: …", filled in when executed
    #[serde(default)]
    pub result: String,
}
