//! Per-property plans: profile, schedule, oracle and tier sizes.

use crate::gen::{self, Fam, Profile};
use crate::monitors::{Monitor, Which};
use crate::oracle::{Converge, CorruptImportOracle, HistMode, History, Oracle, RestartOracle, XlsxRoundTrip};
use crate::rng::Rng;
use crate::run::{Plan, Sched, Special};
use crate::world::{Init, InitialWb};

/// properties that have a check in this binary (MANIFEST.json lists the ones that are claimed)
pub const CLAIMED: [&str; 25] = ["C01", "C02", "C03", "C04", "C08", "C12", "C13", "C14", "C15", "C16", "C17", "C24", "C25", "C26", "C27", "C28", "C29", "C30", "C33", "C05", "C31", "C07", "C10", "C18", "C32"];

pub fn runs_for(prop: &str, tier: &str) -> u64 {
    let (q, t) = match prop {
        "C01" | "C02" => (40_000, 1_500_000),
        "C03" => (30_000, 1_000_000),
        "C26" | "C27" | "C28" | "C08" => (40_000, 1_500_000),
        "C24" => (15_000, 400_000),
        "C25" => (20_000, 1_000_000),
        "C04" => (40_000, 1_000_000),
        "C29" | "C30" => (60_000, 2_000_000),
        "C12" | "C13" | "C14" | "C15" | "C16" | "C17" | "C33" => (30_000, 800_000),
        "C05" | "C31" => (20_000, 400_000),
        "C07" => (10_000, 300_000),
        "C10" | "C18" | "C32" => (30_000, 600_000),
        _ => (10_000, 200_000),
    };
    let n = if tier == "thorough" { t } else { q };
    match std::env::var("VERIF_RUNS").ok().and_then(|s| s.parse::<u64>().ok()) {
        Some(k) => k,
        None => n,
    }
}

/// run indices from here on are enumerated cases, not seeded runs
pub const E_BASE: u64 = 1_000_000_000;

static C25_CASES: std::sync::OnceLock<Vec<(String, crate::xlsxfault::Corrupt)>> = std::sync::OnceLock::new();

/// built once per process (every run executes on a thread of its own)
fn c25_cases() -> &'static Vec<(String, crate::xlsxfault::Corrupt)> {
    C25_CASES.get_or_init(|| crate::xlsxfault::enumerate_cases(&crate::world::fixtures_dir(), &crate::world::fixtures()))
}

/// Indices (>= E_BASE) of the enumerated cases of a tier. The numbering of the cases does
/// not depend on the tier: quick takes every 29th case of the list thorough takes whole.
pub fn enumerated_indices(prop: &str, tier: &str) -> Vec<u64> {
    if prop != "C25" || std::env::var("VERIF_RUNS").is_ok() {
        return vec![];
    }
    let n = c25_cases().len() as u64;
    let stride = if tier == "thorough" { 1 } else { 29 };
    (0..n).filter(|k| k % stride == 0).map(|k| E_BASE + k).collect()
}

pub fn enumerated_case(prop: &str, k: u64, hash_key: u64) -> Option<(Init, Vec<(crate::ev::Ev, Option<String>)>)> {
    if prop != "C25" {
        return None;
    }
    let cases = c25_cases();
    let (fixture, corrupt) = cases.get(k as usize)?.clone();
    let init = Init {
        lang: "en".into(),
        locale: "en".into(),
        tz: "UTC".into(),
        followers: 0,
        initial: InitialWb::Empty,
        start_paused: false,
        hash_key,
        start_ms: 1_700_000_000_000,
        bare: None,
    };
    let label = format!("storage-fault:{}", crate::oracle::corrupt_kind(&corrupt));
    Some((init, vec![(crate::ev::Ev::CorruptImport { fixture: Some(fixture), corrupt, read: None, evaluate: false }, Some(label))]))
}

pub fn level_of(prop: &str) -> &'static str {
    match prop {
        "C04" | "C25" => "fault_enumeration",
        _ => "exploration",
    }
}

const SELECTION_FAMS: [(Fam, u32); 6] = [
    (Fam::Input, 10),
    (Fam::Sheet, 30),
    (Fam::Nav, 40),
    (Fam::Attr, 10),
    (Fam::Struct, 5),
    (Fam::Clip, 5),
];

const BASE_FAMS: [(Fam, u32); 17] = [
    (Fam::Input, 30),
    (Fam::Array, 4),
    (Fam::Clear, 8),
    (Fam::Style, 8),
    (Fam::Border, 3),
    (Fam::NamedStyle, 4),
    (Fam::Struct, 10),
    (Fam::Attr, 6),
    (Fam::Sheet, 8),
    (Fam::Pane, 2),
    (Fam::Names, 5),
    (Fam::Links, 4),
    (Fam::Cf, 4),
    (Fam::Clip, 6),
    (Fam::Fill, 3),
    (Fam::Settings, 2),
    (Fam::Nav, 5),
];

fn base_init(rng: &mut Rng, hash_key: u64) -> Init {
    Init {
        lang: gen::pick_lang(rng).to_string(),
        locale: gen::pick_locale(rng).to_string(),
        tz: "UTC".to_string(),
        followers: 0,
        initial: if rng.chance(0.2) { InitialWb::Layout(rng.below(4) as u8) } else { InitialWb::Empty },
        start_paused: false,
        hash_key,
        start_ms: 1_700_000_000_000 + rng.below(1_000_000_000),
        bare: None,
    }
}

fn base_profile(rng: &mut Rng, guards: bool) -> Profile {
    let mut fams = gen::draw_fams(rng, &BASE_FAMS);
    if guards && fams.iter().any(|(f, _)| *f == Fam::Struct) {
        // guard of KF "CSE arrays under structural edits"
        fams.retain(|(f, _)| *f != Fam::Array);
    }
    Profile {
        len: rng.range(3, 40) as usize,
        fams,
        p_undo: 0.15,
        p_redo: 0.08,
        dynamic: rng.chance(0.4),
        ghosts: rng.chance(0.3),
        edges: rng.chance(0.5),
        p_formula: *rng.pick(&[0.2, 0.4, 0.6]),
        overflow: false,
        guards,
        hostile: false,
    }
}

pub fn plan(prop: &str, rng: &mut Rng, hash_key: u64) -> Plan {
    let guards = match std::env::var("VERIF_GUARDS").ok().as_deref() {
        Some("1") => true,
        Some("0") => false,
        _ => rng.chance(0.85),
    };
    let mut init = base_init(rng, hash_key);
    let mut profile = base_profile(rng, guards);
    let mut sched = Sched::default();
    // exploration switch: history checks other than C03 started from imported fixtures
    if std::env::var("VERIF_FIXTURE_INIT").is_ok() && matches!(prop, "C01" | "C02" | "C26" | "C04" | "C27") && rng.chance(0.16) {
        let small: Vec<String> = crate::world::fixtures().into_iter().filter(|f| !f.contains("calc_test")).collect();
        if !small.is_empty() {
            init.initial = InitialWb::Fixture(rng.pick(&small).clone());
        }
    }
    match prop {
        "C01" => {}
        "C02" => {
            profile.p_undo = 0.25;
            profile.p_redo = 0.20;
        }
        "C04" => {
            sched.p_bad = *rng.pick(&[0.15, 0.3, 0.5]);
        }
        "C26" => {
            sched.p_save = 0.06;
            sched.p_restart_clean = 0.08;
            sched.p_restart_dirty = 0.04;
            sched.p_tick = 0.02;
        }
        "C27" => {
            sched.p_bad = *rng.pick(&[0.0, 0.1, 0.3]);
            // half of the runs also drive a bare Model through model-level operations
            if rng.chance(0.5) {
                init.bare = Some(if rng.chance(0.5) { crate::world::BareInit::Empty } else { crate::world::BareInit::Layout(rng.below(4) as u8) });
                sched.p_bad = sched.p_bad.max(0.15);
            }
            init.followers = rng.below(2) as usize;
            sched.p_flush = 0.5;
            sched.p_deliver = 0.5;
            sched.p_restart_clean = 0.03;
            sched.p_pause = *rng.pick(&[0.0, 0.0, 0.05]);
            profile.p_undo = 0.18;
            profile.p_redo = 0.1;
        }
        "C28" => {
            profile.fams = gen::draw_fams(rng, &SELECTION_FAMS);
            profile.p_undo = 0.2;
            profile.p_redo = 0.12;
            sched.p_bad = *rng.pick(&[0.0, 0.1]);
        }
        "C24" => {
            sched.p_probe = 0.12;
            profile.len = rng.range(3, 25) as usize;
            profile.p_undo = 0.08;
            profile.hostile = rng.chance(0.5);
        }
        "C12" | "C13" | "C14" | "C15" | "C16" | "C17" | "C33" => {
            // build a workbook, then displace it: the family of the property's own
            // operation is always present and heavy
            let own: &[(Fam, u32)] = match prop {
                "C16" => &[(Fam::Clip, 30)],
                "C17" => &[(Fam::Sheet, 35)],
                "C33" => &[(Fam::Struct, 22), (Fam::Clip, 10), (Fam::Clear, 10), (Fam::Links, 14), (Fam::Cf, 14)],
                "C14" => &[(Fam::Struct, 4)],
                _ => &[(Fam::Struct, 28)],
            };
            let mut fams: Vec<(Fam, u32)> = vec![(Fam::Input, 45)];
            for (f, wgt) in [(Fam::Style, 6), (Fam::Links, 5), (Fam::Cf, 3), (Fam::Names, 4), (Fam::Attr, 5), (Fam::Sheet, 4), (Fam::Clear, 3), (Fam::Border, 2), (Fam::Fill, 2), (Fam::Array, 2)] {
                if rng.chance(0.6) {
                    fams.push((f, wgt));
                }
            }
            for (f, wgt) in own {
                fams.retain(|(g, _)| g != f);
                fams.push((*f, *wgt));
            }
            if !fams.iter().any(|(f, _)| *f == Fam::Sheet) && rng.chance(0.7) {
                fams.push((Fam::Sheet, 6));
            }
            if guards && fams.iter().any(|(f, _)| *f == Fam::Struct) {
                fams.retain(|(f, _)| *f != Fam::Array);
            }
            profile.fams = fams;
            profile.len = rng.range(4, 30) as usize;
            profile.p_undo = 0.05;
            profile.p_redo = 0.02;
            profile.p_formula = *rng.pick(&[0.4, 0.6, 0.8]);
            if prop == "C14" {
                sched.p_probe = 0.25;
            }
            if prop == "C17" || prop == "C16" {
                init.initial = InitialWb::Empty;
            }
        }
        "C10" | "C18" | "C32" => {
            let mut fams: Vec<(Fam, u32)> = vec![(Fam::Input, 50), (Fam::Settings, 8), (Fam::Style, 8)];
            for (f, wgt) in [(Fam::Names, 6), (Fam::Cf, 4), (Fam::Clear, 3), (Fam::Struct, 4), (Fam::Clip, 3), (Fam::Sheet, 5), (Fam::Fill, 2)] {
                if rng.chance(0.5) {
                    fams.push((f, wgt));
                }
            }
            if prop == "C32" {
                fams.retain(|(f, _)| !matches!(f, Fam::Names | Fam::Sheet));
                fams.push((Fam::Names, 25));
                fams.push((Fam::Sheet, 20));
                sched.p_restart_clean = 0.04;
                sched.p_xlsx_restart = 0.02;
            }
            profile.fams = fams;
            profile.len = rng.range(4, 30) as usize;
            profile.p_formula = if prop == "C18" { *rng.pick(&[0.2, 0.4]) } else { *rng.pick(&[0.5, 0.7]) };
            profile.hostile = prop == "C18" && rng.chance(0.5);
            profile.p_undo = 0.05;
            profile.p_redo = 0.02;
            sched.p_lang = if prop == "C18" { 0.03 } else { 0.08 };
            sched.p_probe = match prop {
                "C18" => 0.35,
                "C10" => 0.12,
                _ => 0.0,
            };
        }
        "C05" | "C31" | "C07" => {
            // formula-heavy histories: chains, cycles, ranges, cross-sheet references, names,
            // dynamic arrays whose size depends on other cells; then everything that can leave
            // stale state behind: undo, structural edits, pastes, clears, restarts
            let mut fams: Vec<(Fam, u32)> = vec![(Fam::Input, 60), (Fam::Clear, 6), (Fam::Names, 4)];
            for (f, wgt) in [(Fam::Struct, 8), (Fam::Clip, 6), (Fam::Fill, 3), (Fam::Sheet, 4), (Fam::Array, 4), (Fam::Style, 2)] {
                if rng.chance(0.6) {
                    fams.push((f, wgt));
                }
            }
            if guards && fams.iter().any(|(f, _)| *f == Fam::Struct) {
                fams.retain(|(f, _)| *f != Fam::Array);
            }
            profile.fams = fams;
            profile.p_formula = *rng.pick(&[0.6, 0.8, 0.9]);
            profile.dynamic = prop == "C31" || rng.chance(if prop == "C07" { 0.7 } else { 0.4 });
            profile.len = rng.range(4, 30) as usize;
            profile.p_undo = 0.12;
            profile.p_redo = 0.06;
            sched.p_restart_clean = 0.03;
            sched.p_pause = 0.02;
        }
        "C29" | "C30" => {
            // the workload comes from lines::line_event; the rest of the catalogue is
            // sprinkled in (the reference models resynchronise after what they do not describe)
            sched.p_probe = *rng.pick(&[0.8, 0.9, 0.97]);
            profile.len = rng.range(3, 40) as usize;
            profile.p_undo = 0.12;
            profile.p_redo = 0.08;
            init.initial = if rng.chance(0.6) { InitialWb::Layout(rng.below(4) as u8) } else { InitialWb::Empty };
            let fixtures = crate::world::fixtures();
            init.bare = Some(match rng.below(10) {
                0..=4 => crate::world::BareInit::Layout(rng.below(4) as u8),
                5 | 6 if !fixtures.is_empty() => crate::world::BareInit::Fixture(rng.pick(&fixtures).clone()),
                _ => crate::world::BareInit::Empty,
            });
        }
        "C25" => {
            sched.p_probe = 0.5;
            profile.len = rng.range(2, 16) as usize;
        }
        "C08" => {
            sched.p_probe = 0.04;
            profile.dynamic = true;
            profile.p_formula = 0.7;
            profile.overflow = true;
            sched.p_restart_clean = 0.03;
            profile.p_undo = 0.1;
        }
        "C03" => {
            // a sixth of the runs start from an imported file: another default style, fonts,
            // shared strings and style pools than a workbook made from nothing
            if rng.chance(0.16) {
                let small: Vec<String> = crate::world::fixtures().into_iter().filter(|f| !f.contains("calc_test")).collect();
                if !small.is_empty() {
                    init.initial = InitialWb::Fixture(rng.pick(&small).clone());
                }
            }
            init.followers = rng.range(1, 2) as usize;
            sched.p_flush = *rng.pick(&[1.0, 0.5, 0.1, 0.0]);
            sched.p_deliver = *rng.pick(&[1.0, 0.5, 0.2]);
            profile.p_undo = 0.2;
            profile.p_redo = 0.12;
        }
        _ => {}
    }
    Plan { init, profile, sched }
}

pub fn oracle_for(prop: &str) -> Box<dyn Oracle> {
    match prop {
        "C01" => Box::new(History::new(HistMode::Undo)),
        "C02" => Box::new(History::new(HistMode::Redo)),
        "C04" => Box::new(History::new(HistMode::Fail)),
        "C03" => Box::new(Converge::new()),
        "C26" => Box::new(RestartOracle::new()),
        "C27" => Box::new(Monitor::new(Which::Wellformed)),
        "C28" => Box::new(Monitor::new(Which::Selection)),
        "C08" => Box::new(Monitor::new(Which::NonFinite)),
        "C24" => Box::new(XlsxRoundTrip::new()),
        "C12" => Box::new(crate::structural::Structural::new(crate::structural::Focus::Insert)),
        "C13" => Box::new(crate::structural::Structural::new(crate::structural::Focus::Delete)),
        "C14" => Box::new(crate::structural::Structural::new(crate::structural::Focus::InsDel)),
        "C15" => Box::new(crate::structural::Structural::new(crate::structural::Focus::Move)),
        "C16" => Box::new(crate::structural::Structural::new(crate::structural::Focus::Clip)),
        "C17" => Box::new(crate::structural::Structural::new(crate::structural::Focus::Sheet)),
        "C33" => Box::new(crate::structural::Structural::new(crate::structural::Focus::Meta)),
        "C07" => Box::new(crate::schedule::ScheduleOracle::new()),
        "C10" => Box::new(crate::stability::Stability::new(crate::stability::Focus::Config)),
        "C18" => Box::new(crate::stability::Stability::new(crate::stability::Focus::Retype)),
        "C32" => Box::new(crate::stability::Stability::new(crate::stability::Focus::Names)),
        "C05" => Box::new(crate::fixpoint::FixPoint::new(crate::fixpoint::Which::All)),
        "C31" => Box::new(crate::fixpoint::FixPoint::new(crate::fixpoint::Which::Spills)),
        "C29" => Box::new(crate::lines::LineAttrs::new()),
        "C30" => Box::new(crate::lines::StyleReadback::new()),
        "C25" => Box::new(CorruptImportOracle::new()),
        _ => Box::new(History::new(HistMode::Undo)),
    }
}

pub fn special_for(prop: &str) -> Option<Box<Special>> {
    match prop {
        "C04" | "C28" => Some(Box::new(|rng, w, p| crate::bad::bad_op(rng, w, p))),
        "C27" => Some(Box::new(|rng, w, p| {
            // rejected calls on the session, or a model-level operation on the bare Model
            if w.bare.is_some() && rng.chance(0.4) {
                crate::lines::model_event(rng, w, p)
            } else {
                crate::bad::bad_op(rng, w, p)
            }
        })),
        "C24" => Some(Box::new(|rng, w, _p| {
            let plan = if rng.chance(0.7) {
                crate::xlsxfault::WritePlan::default()
            } else {
                // the export of these small workbooks is 8-15 kB
                let approx = crate::world::export_xlsx(w.primary.model()).map(|b| b.len() as u64).unwrap_or(10_000);
                crate::xlsxfault::draw_write_plan(rng, approx)
            };
            let label = if plan.is_none() { None } else { Some(format!("write-fault:{}", write_plan_kind(&plan))) };
            Some((crate::ev::Ev::XlsxExportImport { plan }, label))
        })),
        "C14" => Some(Box::new(|rng, w, _p| {
            let n = w.primary.sheet_count().max(1);
            let rows = rng.chance(0.5);
            let at = match rng.below(12) {
                0 => if rows { 1_048_575 } else { 16_383 },
                _ => rng.range(1, 12) as i32,
            };
            Some((crate::ev::Ev::InsertThenDelete { sheet: rng.below(n as u64) as u32, rows, at, n: rng.range(1, 3) as i32 }, None))
        })),
        "C10" | "C18" => Some(Box::new(|rng, w, _p| {
            // type back what the editor shows, into a cell that holds something
            let model = w.primary.model();
            let mut cells: Vec<(u32, i32, i32)> = Vec::new();
            for (si, ws) in model.workbook.worksheets.iter().enumerate() {
                for (r, row) in &ws.sheet_data {
                    for c in row.keys() {
                        cells.push((si as u32, *r, *c));
                    }
                }
            }
            if cells.is_empty() {
                return None;
            }
            cells.sort_unstable();
            let (sheet, row, col) = *rng.pick(&cells);
            Some((crate::ev::Ev::Retype { sheet, row, col }, None))
        })),
        "C29" => Some(Box::new(|rng, w, p| crate::lines::line_event(rng, w, p, false))),
        "C30" => Some(Box::new(|rng, w, p| crate::lines::line_event(rng, w, p, true))),
        "C25" => {
            let fixtures = crate::world::fixtures();
            Some(Box::new(move |rng, w, _p| {
                let fixture = if !fixtures.is_empty() && rng.chance(0.5) { Some(rng.pick(&fixtures).clone()) } else { None };
                let base = match &fixture {
                    Some(f) => std::fs::read(format!("{}/{}", crate::world::fixtures_dir(), f)).ok()?,
                    None => crate::world::export_xlsx(w.primary.model()).ok()?,
                };
                let corrupt = crate::xlsxfault::draw(rng, &base);
                let read = if rng.chance(0.15) { Some(crate::xlsxfault::draw_read_plan(rng, base.len() as u64)) } else { None };
                let label = format!("storage-fault:{}{}", crate::oracle::corrupt_kind(&corrupt), if read.is_some() { "+reader-fault" } else { "" });
                Some((crate::ev::Ev::CorruptImport { fixture, corrupt, read, evaluate: false }, Some(label)))
            }))
        }
        "C08" => Some(Box::new(|rng, w, _p| {
            // numbers read from files: forge the payload of <v> elements
            let base = crate::world::export_xlsx(w.primary.model()).ok()?;
            let entries = crate::xlsxfault::read_entries(&base).ok()?;
            let sheets: Vec<&String> = entries.iter().map(|e| &e.0).filter(|n| n.contains("worksheets/sheet")).collect();
            if sheets.is_empty() {
                return None;
            }
            let entry = (*rng.pick(&sheets)).clone();
            let value = rng.pick(&["1e999", "-1e999", "NaN", "inf", "-inf", "INF", "Infinity", "1e400", "9".repeat(400).as_str()]).to_string();
            let corrupt = crate::xlsxfault::Corrupt::SetText { entry, name: "v".into(), value, first: rng.chance(0.5) };
            Some((crate::ev::Ev::CorruptImport { fixture: None, corrupt, read: None, evaluate: true }, Some("file-number-forged".into())))
        })),
        _ => None,
    }
}

fn write_plan_kind(p: &crate::xlsxfault::WritePlan) -> &'static str {
    if p.fail_at_byte.is_some() {
        "hard-error-at-byte"
    } else if p.fail_seek_at.is_some() {
        "seek-error"
    } else if p.fail_flush {
        "flush-error"
    } else if p.short.is_some() && p.interrupt_every.is_some() {
        "short+interrupted"
    } else if p.short.is_some() {
        "short-writes"
    } else {
        "interrupted"
    }
}

pub fn rule_for(prop: &str) -> String {
    match prop {
        "C01" => "seeded histories of user-model operations (swarm-selected families, 3-40 events, undo 15%/redo 8%) on one editing session; a case is non-trivial iff at least one undo of a recorded operation was compared against the history-cursor model; distinct = distinct (event-kind sequence hash, final snapshot hash)".into(),
        "C02" => "as C01 with undo 25%/redo 20%; non-trivial iff at least one redo of an undone operation was compared against the cursor model".into(),
        "C24" => "histories of 3-25 operations (all families: styles, names, links, conditional formats, arrays, hidden rows/columns, panes...) with, at 12% of the steps, an export of the current workbook through the simulated disk followed by an import of what was written: 70% fault-free (snapshot restricted to the facets the statement lists must be equal), 30% under a drawn write-fault plan (short writes, Interrupted, hard error at byte k, failing seek, failing flush: the call must return Err, or Ok with a file that imports to an equal workbook); non-trivial iff at least one export happened on an evaluated state".into(),
        "C25" => "valid packages (the simulator's own export of a history-reached state, or one of the ~240 fixtures under xlsx/tests) pass through one drawn storage fault - truncation, zero-filled block, bit flips, dropped/duplicated/emptied/swapped zip entries, truncated XML, dropped element, dropped/garbled attribute, forged text payload, deep nesting, garbage - and, in 15% of the cases, through a reader that injects short reads, Interrupted, EIO or early EOF (hook H2); the import (plus Model::from_workbook when it returns a workbook) must return; a panic is the violation, a hang or abort is reported through the watchdog; non-trivial iff a damaged package was imported".into(),
        "C29" => "two nodes per run: a bare Model (empty, one of four multi-column descriptor layouts, or imported from a fixture of xlsx/tests) driven through set_column_width / set_column_hidden / set_column_style / delete_column_style and the row equivalents, with byte-level restarts; and an editing session driven through set_columns_width / set_rows_height / set_columns_hidden / set_rows_hidden, update_range_style and range_clear_formatting on whole columns, whole rows and partial areas, with undo/redo and clean restarts; 3-40 events, lines drawn from 1..12 and the last two of the grid; after every event every line of the check set (window, grid edge, every line a descriptor mentions and its neighbours, every line ever touched) is read through the public getters and compared with the reference map; non-trivial iff at least one modelled setter call, user-level line operation or undo/redo happened".into(),
        "C30" => "same two nodes; a per-run pool of 10 styles drawn from the attribute space (40 number formats including built-in codes in other letter case, font name/family/scheme/size, five border sides in nine line styles, fill, eight horizontal and five vertical alignments, wrap, quote prefix) is assigned to cells, rows and columns of the bare Model (set_cell_style / set_row_style / set_column_style) and to cell ranges of the session (on_paste_styles), interleaved with the other operations; after every event every tracked target must read back (get_style_for_cell / get_row_style / get_column_style) the style last assigned to it; non-trivial iff at least one style assignment was tracked".into(),
        "C26" => "C01 histories with Save (6%), clean Restart (8%: to_bytes -> from_bytes -> evaluate, new incarnation with another hash seed, history lost) and dirty Restart (4%: crash, load the last saved bytes); the run continues on the restarted node; non-trivial iff a decode/encode workbook equality, a clean-restart or a dirty-restart snapshot comparison was made on an evaluated state".into(),
        "C27" => "C01+C04 mix (invalid calls 0-30%), 0-1 follower fed by the queue, clean restarts 3%, evaluation paused in some runs; the well-formedness scan runs on every live node after every event; non-trivial iff the run contains at least one event that can change structure (operation, undo/redo, delivery, restart)".into(),
        "C28" => "sheet new/delete/duplicate/move/hide/unhide at every index relative to the selected one, selection and navigation events, hide rows/columns, undo/redo, some invalid calls; the selection scan (raw workbook.views / worksheet.views) runs after every event; non-trivial iff the run contains at least one sheet/selection/navigation/undo/redo event".into(),
        "C08" => "formula-heavy histories biased to overflow (1E308, -1E308, 1E-320, ^, *, /, SUM, array literals and range arithmetic in scalar, CSE and dynamic form, typed 1e999), undo/redo and restarts; every NumberCell / formula value / spill value of every live node is scanned after every event; non-trivial iff the run contains an operation".into(),
        "C03" => "seeded histories (C01 mix, undo 20%/redo 12%) on a primary session with 1-2 follower sessions loaded from the same initial bytes; the outgoing queue is cut into batches by a per-run flush probability (after every event / 0.5 / 0.1 / only at the end) and delivered with a per-run lag; followers have other hash seeds than the primary; non-trivial iff at least one comparison primary vs follower was made at a quiescent point after at least one batch was applied".into(),
        "C04" => "seeded histories with injected invalid calls (operation kind x invalid-argument class table, Appendix A); non-trivial iff at least one call that returned Err was compared (state, undo/redo lengths) before/after".into(),
        _ => "seeded histories".into(),
    }
}
