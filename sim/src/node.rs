//! A node = one IronCalc editing session (a `UserModel`) plus the per-user
//! state the harness must remember across restarts (language, paused flag).

use crate::ev::Ev;
use ironcalc_base::expressions::types::Area;
use ironcalc_base::{BorderArea, ClipboardData, Model, UserModel};

pub const LANGS: [&str; 5] = ["en", "es", "fr", "de", "it"];
pub const LOCALES: [&str; 6] = ["en", "en-GB", "es", "fr", "de", "it"];
pub const TZS: [&str; 4] = ["UTC", "Europe/Berlin", "America/New_York", "Asia/Tokyo"];

pub fn static_lang(s: &str) -> Option<&'static str> {
    LANGS.iter().copied().find(|l| *l == s)
}
pub fn static_locale(s: &str) -> Option<&'static str> {
    LOCALES.iter().copied().find(|l| *l == s)
}
pub fn static_tz(s: &str) -> Option<&'static str> {
    TZS.iter().copied().find(|l| *l == s)
}

pub struct Node {
    pub um: UserModel<'static>,
    pub lang: &'static str,
    pub paused: bool,
    /// mutated since the last evaluation (spill clauses are only meaningful on
    /// evaluated states)
    pub stale: bool,
    pub incarnation: u32,
}

impl Node {
    pub fn new_empty(locale: &'static str, tz: &'static str, lang: &'static str) -> Result<Node, String> {
        let um = UserModel::new_empty("model", locale, tz, lang)?;
        Ok(Node { um, lang, paused: false, stale: false, incarnation: 0 })
    }
    pub fn from_bytes(bytes: &[u8], lang: &'static str, incarnation: u32) -> Result<Node, String> {
        let um = UserModel::from_bytes(bytes, lang)?;
        Ok(Node { um, lang, paused: false, stale: false, incarnation })
    }
    pub fn from_model(model: Model<'static>, lang: &'static str, incarnation: u32) -> Node {
        Node { um: UserModel::from_model(model), lang, paused: false, stale: false, incarnation }
    }
    pub fn model(&self) -> &Model<'_> {
        self.um.get_model()
    }
    pub fn lens(&self) -> (usize, usize, usize) {
        self.um.verif_queue_lengths()
    }
    pub fn sheet_count(&self) -> u32 {
        self.model().workbook.worksheets.len() as u32
    }

    fn touched(&mut self) {
        if self.paused {
            self.stale = true;
        }
    }

    /// Applies a node-level event through the public API. World events are not
    /// handled here.
    pub fn apply(&mut self, ev: &Ev) -> Result<(), String> {
        use Ev::*;
        let um = &mut self.um;
        let r = match ev {
            Input { sheet, row, col, text } => um.set_user_input(*sheet, *row, *col, text),
            ArrayFormula { sheet, row, col, w, h, text } => {
                um.set_user_array_formula(*sheet, *row, *col, *w, *h, text)
            }
            ClearAll { a } => um.range_clear_all(&a.area()),
            ClearContents { a } => um.range_clear_contents(&a.area()),
            ClearFormatting { a } => um.range_clear_formatting(&a.area()),
            StyleRange { a, path, value } => um.update_range_style(&a.area(), path, value),
            Border { a, kind, style, color } => {
                let js = if color.is_empty() {
                    serde_json::json!({"item": {"style": style}, "type": kind})
                } else {
                    serde_json::json!({"item": {"style": style, "color": color}, "type": kind})
                };
                match serde_json::from_value::<BorderArea>(js) {
                    Ok(b) => um.set_area_with_border(&a.area(), &b),
                    Err(e) => Err(format!("harness: bad border json: {e}")),
                }
            }
            PasteStyles { sheet, r0, c0, r1, c1, styles } => (|| {
                um.set_selected_sheet(*sheet)?;
                um.set_selected_cell(*r0, *c0)?;
                um.set_selected_range(*r0, *c0, *r1, *c1)?;
                um.on_paste_styles(styles)
            })(),
            InsertRows { sheet, row, n } => um.insert_rows(*sheet, *row, *n),
            InsertCols { sheet, col, n } => um.insert_columns(*sheet, *col, *n),
            DeleteRows { sheet, row, n } => um.delete_rows(*sheet, *row, *n),
            DeleteCols { sheet, col, n } => um.delete_columns(*sheet, *col, *n),
            MoveRows { sheet, row, n, delta } => um.move_rows_action(*sheet, *row, *n, *delta),
            MoveCols { sheet, col, n, delta } => um.move_columns_action(*sheet, *col, *n, *delta),
            ColsWidth { sheet, c0, c1, w } => um.set_columns_width(*sheet, *c0, *c1, *w),
            RowsHeight { sheet, r0, r1, h } => um.set_rows_height(*sheet, *r0, *r1, *h),
            ColsHidden { sheet, c0, c1, hidden } => um.set_columns_hidden(*sheet, *c0, *c1, *hidden),
            RowsHidden { sheet, r0, r1, hidden } => um.set_rows_hidden(*sheet, *r0, *r1, *hidden),
            NewSheet => um.new_sheet(),
            DeleteSheet { sheet } => um.delete_sheet(*sheet),
            DuplicateSheet { sheet } => um.duplicate_sheet(*sheet),
            RenameSheet { sheet, name } => um.rename_sheet(*sheet, name),
            MoveSheet { from, to } => um.move_sheet(*from, *to),
            HideSheet { sheet } => um.hide_sheet(*sheet),
            UnhideSheet { sheet } => um.unhide_sheet(*sheet),
            SheetColor { sheet, color } => match ironcalc_base::types::Color::from_param(color) {
                Ok(c) => um.set_sheet_color(*sheet, &c),
                Err(e) => Err(e),
            },
            FrozenRows { sheet, n } => um.set_frozen_rows_count(*sheet, *n),
            FrozenCols { sheet, n } => um.set_frozen_columns_count(*sheet, *n),
            GridLines { sheet, show } => um.set_show_grid_lines(*sheet, *show),
            NewName { name, scope, formula } => um.new_defined_name(name, *scope, formula),
            UpdateName { name, scope, new_name, new_scope, formula } => {
                um.update_defined_name(name, *scope, new_name, *new_scope, formula)
            }
            DeleteName { name, scope } => um.delete_defined_name(name, *scope),
            SetLink { sheet, row, col, link, label } => {
                um.set_cell_link(*sheet, *row, *col, link.clone(), label.as_deref())
            }
            DeleteLink { sheet, row, col } => um.delete_cell_link(*sheet, *row, *col),
            AddCf { sheet, range, rule } => um.add_conditional_formatting(*sheet, range, rule.clone()),
            UpdateCf { sheet, index, range, rule } => {
                um.update_conditional_formatting(*sheet, *index, range, rule.clone())
            }
            DeleteCf { sheet, index } => um.delete_conditional_formatting(*sheet, *index),
            RaiseCf { sheet, index } => um.raise_conditional_formatting_priority(*sheet, *index),
            LowerCf { sheet, index } => um.lower_conditional_formatting_priority(*sheet, *index),
            CreateNamedStyle { name, style, includes } => um.create_named_style(name, style, *includes),
            UpdateNamedStyle { name, new_name, style, includes } => {
                um.update_named_style(name, new_name, style, *includes)
            }
            DeleteNamedStyle { name } => um.delete_named_style(name),
            ApplyNamedStyle { sheet, r0, c0, r1, c1, name } => (|| {
                um.set_selected_sheet(*sheet)?;
                um.set_selected_cell(*r0, *c0)?;
                um.set_selected_range(*r0, *c0, *r1, *c1)?;
                um.on_apply_named_style(name)
            })(),
            CopyPaste { src_sheet, r0, c0, r1, c1, dst_sheet, dr, dc, cut } => (|| {
                um.set_selected_sheet(*src_sheet)?;
                um.set_selected_cell(*r0, *c0)?;
                um.set_selected_range(*r0, *c0, *r1, *c1)?;
                let clip = um.copy_to_clipboard()?;
                // as the wasm binding does: through serde
                let js = serde_json::to_value(&clip).map_err(|e| format!("harness: {e}"))?;
                let data: ClipboardData = serde_json::from_value(js["data"].clone())
                    .map_err(|e| format!("harness: clipboard data: {e}"))?;
                let sheet: u32 = serde_json::from_value(js["sheet"].clone())
                    .map_err(|e| format!("harness: clipboard sheet: {e}"))?;
                let range: (i32, i32, i32, i32) = serde_json::from_value(js["range"].clone())
                    .map_err(|e| format!("harness: clipboard range: {e}"))?;
                um.set_selected_sheet(*dst_sheet)?;
                um.set_selected_cell(*dr, *dc)?;
                um.paste_from_clipboard(sheet, range, &data, *cut)
            })(),
            PasteCsv { a, csv } => um.paste_csv_string(&a.area(), csv),
            AutoFillRows { a, to_row } => um.auto_fill_rows(&a.area(), *to_row),
            AutoFillCols { a, to_col } => um.auto_fill_columns(&a.area(), *to_col),
            SetLocale { locale } => um.set_locale(locale),
            SetTimezone { tz } => um.set_timezone(tz),
            SetWbName { name } => {
                um.set_name(name);
                Ok(())
            }
            SetTheme { theme } => {
                um.set_theme(theme.clone());
                Ok(())
            }
            Undo => um.undo(),
            Redo => um.redo(),
            SelectSheet { sheet } => um.set_selected_sheet(*sheet),
            SelectCell { row, col } => um.set_selected_cell(*row, *col),
            SelectRange { r0, c0, r1, c1 } => um.set_selected_range(*r0, *c0, *r1, *c1),
            Arrow { dir } => match dir {
                0 => um.on_arrow_right(),
                1 => um.on_arrow_left(),
                2 => um.on_arrow_up(),
                _ => um.on_arrow_down(),
            },
            PageDown => um.on_page_down(),
            PageUp => um.on_page_up(),
            AreaSelecting { row, col } => um.on_area_selecting(*row, *col),
            ExpandRange { key } => um.on_expand_selected_range(key),
            NavEdge { dir } => {
                use ironcalc_base::worksheet::NavigationDirection as D;
                let d = match dir {
                    0 => D::Right,
                    1 => D::Left,
                    2 => D::Up,
                    _ => D::Down,
                };
                um.on_navigate_to_edge_in_direction(d)
            }
            WindowSize { w, h } => {
                um.set_window_width(*w);
                um.set_window_height(*h);
                Ok(())
            }
            SetLanguage { lang } => {
                let r = um.set_language(lang);
                if r.is_ok() {
                    if let Some(l) = static_lang(lang) {
                        self.lang = l;
                    }
                }
                r
            }
            Pause => {
                um.pause_evaluation();
                self.paused = true;
                Ok(())
            }
            Resume => {
                um.resume_evaluation();
                self.paused = false;
                Ok(())
            }
            Evaluate => {
                um.evaluate();
                self.stale = false;
                return Ok(());
            }
            Retype { sheet, row, col } => (|| {
                let s = um.get_cell_content(*sheet, *row, *col)?;
                um.set_user_input(*sheet, *row, *col, &s)
            })(),
            InsertThenDelete { sheet, rows, at, n } => (|| {
                if *rows {
                    um.insert_rows(*sheet, *at, *n)?;
                    um.delete_rows(*sheet, *at, *n)
                } else {
                    um.insert_columns(*sheet, *at, *n)?;
                    um.delete_columns(*sheet, *at, *n)
                }
            })(),
            Flush | Deliver { .. } | Save | Restart { .. } | XlsxRestart | XlsxExportImport { .. } | CorruptImport { .. } | Tick { .. } | Bare { .. } => {
                Err("harness: world event applied to a node".to_string())
            }
        };
        self.touched();
        r
    }
}

#[allow(dead_code)]
pub fn area(sheet: u32, row: i32, column: i32, width: i32, height: i32) -> Area {
    Area { sheet, row, column, width, height }
}
