//! The observable snapshot (DESIGN §3): a flat map `facet@where -> value`
//! computed through public getters / public fields only, normalised so that two
//! states the public getters cannot tell apart compare equal.

use crate::node::Node;
use crate::rng::Fnv;
use ironcalc_base::types::{ArrayKind, Cell, FormulaValue, SpillValue, Style, Worksheet};
use ironcalc_base::Model;
use std::collections::BTreeMap;

pub type Snap = BTreeMap<String, String>;

#[derive(Clone, Debug, serde::Serialize, serde::Deserialize, PartialEq)]
pub struct DiffLine {
    pub facet: String,
    pub at: String,
    pub expected: String,
    pub actual: String,
}

pub fn facet_of(key: &str) -> &str {
    key.split('@').next().unwrap_or(key)
}

pub fn diff(expected: &Snap, actual: &Snap) -> Vec<DiffLine> {
    let mut out = Vec::new();
    for (k, v) in expected {
        match actual.get(k) {
            Some(w) if w == v => {}
            Some(w) => out.push(line(k, v, w)),
            None => out.push(line(k, v, "<absent>")),
        }
    }
    for (k, w) in actual {
        if !expected.contains_key(k) {
            out.push(line(k, "<absent>", w));
        }
    }
    out
}

fn line(k: &str, e: &str, a: &str) -> DiffLine {
    let mut it = k.splitn(2, '@');
    let facet = it.next().unwrap_or("").to_string();
    let at = it.next().unwrap_or("").to_string();
    DiffLine { facet, at, expected: clip(e), actual: clip(a) }
}

fn clip(s: &str) -> String {
    if s.len() > 300 {
        let mut e = 300;
        while !s.is_char_boundary(e) {
            e -= 1;
        }
        format!("{}…", &s[..e])
    } else {
        s.to_string()
    }
}

pub fn hash(s: &Snap) -> u64 {
    let mut h = Fnv::default();
    for (k, v) in s {
        h.write_str(k);
        h.write_str(v);
    }
    h.finish()
}

pub fn facets(d: &[DiffLine]) -> Vec<String> {
    let mut v: Vec<String> = d.iter().map(|l| l.facet.clone()).collect();
    v.sort();
    v.dedup();
    v
}

pub fn fnum(x: f64) -> String {
    format!("{:?}", x)
}

pub fn style_json(s: &Style) -> String {
    serde_json::to_string(s).unwrap_or_else(|e| format!("<unserialisable style: {e}>"))
}

pub fn typed_value(cell: &Cell, shared: &[String]) -> String {
    match cell {
        Cell::EmptyCell { .. } => "empty".to_string(),
        Cell::BooleanCell { v, .. } => format!("b:{v}"),
        Cell::NumberCell { v, .. } => format!("n:{}", fnum(*v)),
        Cell::ErrorCell { ei, .. } => format!("e:{ei:?}"),
        Cell::SharedString { si, .. } => match shared.get(*si as usize) {
            Some(s) => format!("s:{s}"),
            None => format!("s:<dangling si {si}>"),
        },
        Cell::CellFormula { v, .. } | Cell::ArrayFormula { v, .. } => match v {
            FormulaValue::Unevaluated => "unevaluated".to_string(),
            FormulaValue::Boolean(b) => format!("b:{b}"),
            FormulaValue::Number(n) => format!("n:{}", fnum(*n)),
            FormulaValue::Text(s) => format!("s:{s}"),
            FormulaValue::Error { ei, .. } => format!("e:{ei:?}"),
        },
        Cell::SpillCell { v, .. } => match v {
            SpillValue::Boolean(b) => format!("b:{b}"),
            SpillValue::Number(n) => format!("n:{}", fnum(*n)),
            SpillValue::Text(s) => format!("s:{s}"),
            SpillValue::Error(ei) => format!("e:{ei:?}"),
        },
    }
}

pub fn cell_kind(cell: &Cell) -> String {
    match cell {
        Cell::EmptyCell { .. } => "empty".into(),
        Cell::BooleanCell { .. } => "boolean".into(),
        Cell::NumberCell { .. } => "number".into(),
        Cell::ErrorCell { .. } => "error".into(),
        Cell::SharedString { .. } => "text".into(),
        Cell::CellFormula { .. } => "formula".into(),
        Cell::ArrayFormula { kind: ArrayKind::Cse, r, .. } => format!("cse {}x{}", r.0, r.1),
        Cell::ArrayFormula { kind: ArrayKind::Dynamic, r, .. } => format!("dyn {}x{}", r.0, r.1),
        Cell::SpillCell { a, .. } => format!("spill of R{}C{}", a.0, a.1),
    }
}

pub fn cell_style_index(cell: &Cell) -> i32 {
    match cell {
        Cell::EmptyCell { s }
        | Cell::BooleanCell { s, .. }
        | Cell::NumberCell { s, .. }
        | Cell::ErrorCell { s, .. }
        | Cell::SharedString { s, .. }
        | Cell::CellFormula { s, .. }
        | Cell::ArrayFormula { s, .. }
        | Cell::SpillCell { s, .. } => *s,
    }
}

/// Resolves a style index from the public pools (record assembly only).
pub fn style_of_index(styles: &ironcalc_base::types::Styles, index: i32) -> Option<Style> {
    let xf = styles.cell_xfs.get(usize::try_from(index).ok()?)?;
    Some(Style {
        alignment: xf.alignment.clone(),
        num_fmt: ironcalc_base::number_format::get_num_fmt(xf.num_fmt_id, &styles.num_fmts),
        fill: styles.fills.get(xf.fill_id as usize)?.clone(),
        font: styles.fonts.get(xf.font_id as usize)?.clone(),
        border: styles.borders.get(xf.border_id as usize)?.clone(),
        quote_prefix: xf.quote_prefix,
    })
}

/// style index an absent cell at (row, column) would resolve to
pub fn inherited_style_index(ws: &Worksheet, row: i32, column: i32) -> i32 {
    for r in &ws.rows {
        if r.r == row {
            if r.custom_format {
                return r.s;
            }
            break;
        }
    }
    for c in &ws.cols {
        if column >= c.min && column <= c.max {
            return c.style.unwrap_or(0);
        }
    }
    0
}

fn resolved_style(model: &Model, sheet: u32, row: i32, column: i32) -> String {
    match model.get_style_for_cell(sheet, row, column) {
        Ok(mut s) => {
            // The quote prefix says "this text is a text although it looks like something
            // else": on anything but a text cell the flag means nothing, is shown nowhere,
            // and typing into the cell resets it.
            let is_text = matches!(model.workbook.worksheet(sheet).ok().and_then(|ws| ws.cell(row, column)), Some(Cell::SharedString { .. }));
            if !is_text {
                s.quote_prefix = false;
            }
            style_json(&s)
        }
        Err(e) => format!("<err {e}>"),
    }
}

pub struct SnapOpts {
    /// include content / formatted text (language dependent)
    pub text: bool,
}

impl Default for SnapOpts {
    fn default() -> Self {
        SnapOpts { text: true }
    }
}

pub fn snapshot(node: &Node) -> Snap {
    snapshot_model(node.model(), Some(node), &SnapOpts::default())
}

pub fn snapshot_model(model: &Model, node: Option<&Node>, opts: &SnapOpts) -> Snap {
    let mut s = Snap::new();
    let wb = &model.workbook;
    s.insert("wb.name@".into(), wb.name.clone());
    s.insert("wb.locale@".into(), wb.settings.locale.clone());
    s.insert("wb.tz@".into(), wb.settings.tz.clone());
    s.insert(
        "wb.theme@".into(),
        serde_json::to_string(&wb.theme).unwrap_or_default(),
    );
    // defined names
    for dn in &wb.defined_names {
        let scope = match dn.sheet_id {
            None => "global".to_string(),
            Some(id) => match wb.worksheets.iter().position(|w| w.sheet_id == id) {
                Some(i) => format!("sheet{i}"),
                None => format!("dangling-id{id}"),
            },
        };
        let key = format!("names@{}|{}", dn.name.to_lowercase(), scope);
        // a leading '=' is accepted and means nothing (the xlsx writer drops it)
        let val = format!("{} = {}", dn.name, dn.formula.strip_prefix('=').unwrap_or(&dn.formula));
        // duplicates are themselves observable
        let mut k = key.clone();
        let mut n = 1;
        while s.contains_key(&k) {
            n += 1;
            k = format!("{key}#{n}");
        }
        s.insert(k, val);
    }
    // named styles
    for name in model.get_named_style_list() {
        let st = match model.get_named_style(&name) {
            Ok(st) => style_json(&st),
            Err(e) => format!("<err {e}>"),
        };
        let inc = match model.get_named_style_includes(&name) {
            Ok(i) => serde_json::to_string(&i).unwrap_or_default(),
            Err(e) => format!("<err {e}>"),
        };
        s.insert(format!("namedstyle@{name}"), format!("{st} includes {inc}"));
    }
    s.insert("sheets.count@".into(), wb.worksheets.len().to_string());
    let default_style = style_json(&Style::default());
    for (i, ws) in wb.worksheets.iter().enumerate() {
        let si = i as u32;
        s.insert(format!("sheet.name@{i}"), ws.name.clone());
        s.insert(format!("sheet.state@{i}"), ws.state.to_string());
        s.insert(format!("sheet.color@{i}"), format!("{:?}", ws.color));
        s.insert(
            format!("sheet.frozen@{i}"),
            format!("rows={} cols={}", ws.frozen_rows, ws.frozen_columns),
        );
        s.insert(format!("sheet.grid@{i}"), ws.show_grid_lines.to_string());
        if !ws.merge_cells.is_empty() {
            s.insert(format!("sheet.merge@{i}"), ws.merge_cells.join(" "));
        }
        // conditional formats in stored order, dxf resolved
        for (k, cf) in ws.conditional_formatting.iter().enumerate() {
            let mut js = serde_json::to_value(&cf.cf_rule).unwrap_or(serde_json::Value::Null);
            normalise_cf_formulas(&mut js, wb, &ws.name);
            let mut dxf = serde_json::Value::Null;
            if let Some(obj) = js.as_object_mut() {
                if let Some(id) = obj.remove("dxf_id") {
                    dxf = match id.as_u64().and_then(|d| wb.styles.dxfs.get(d as usize)) {
                        Some(d) => serde_json::to_value(d).unwrap_or(serde_json::Value::Null),
                        None => serde_json::json!(format!("<dangling dxf {id}>")),
                    };
                }
            }
            s.insert(
                format!("cf@{i}#{k}"),
                format!("range={} prio={} rule={} dxf={}", cf.range, cf.priority, js, dxf),
            );
        }
        for ((r, c), l) in &ws.links {
            s.insert(
                format!("link@{i}!R{r}C{c}"),
                serde_json::to_string(l).unwrap_or_default(),
            );
        }
        // rows
        let mut seen_rows: Vec<i32> = Vec::new();
        for r in &ws.rows {
            let tag = if seen_rows.contains(&r.r) { "#dup" } else { "" };
            seen_rows.push(r.r);
            let h = r.height * ironcalc_base::ROW_HEIGHT_FACTOR;
            if (h - 25.0).abs() > 1e-9 {
                s.insert(format!("row.height@{i}!{}{tag}", r.r), fnum(h));
            }
            if r.hidden {
                s.insert(format!("row.hidden@{i}!{}{tag}", r.r), "true".into());
            }
            let st = match model.get_row_style(si, r.r) {
                Ok(Some(st)) => style_json(&st),
                Ok(None) => default_style.clone(),
                Err(e) => format!("<err {e}>"),
            };
            if st != default_style {
                s.insert(format!("row.style@{i}!{}{tag}", r.r), st);
            }
        }
        // columns: run-length canonical form per attribute
        col_runs(&mut s, model, i, ws, &default_style);
        // cells
        for (r, rowdata) in &ws.sheet_data {
            for (c, cell) in rowdata {
                let at = format!("{i}!R{r}C{c}");
                if let Cell::EmptyCell { s: sidx } = cell {
                    let inh = inherited_style_index(ws, *r, *c);
                    if *sidx == inh {
                        continue;
                    }
                    let a = style_of_index(&wb.styles, *sidx);
                    let b = style_of_index(&wb.styles, inh);
                    if a.is_some() && a == b {
                        continue;
                    }
                }
                s.insert(format!("cell.kind@{at}"), cell_kind(cell));
                s.insert(format!("cell.value@{at}"), typed_value(cell, &wb.shared_strings));
                s.insert(format!("cell.style@{at}"), resolved_style(model, si, *r, *c));
                if opts.text {
                    let content = match model.get_localized_cell_content(si, *r, *c) {
                        Ok(t) => t,
                        Err(e) => format!("<err {e}>"),
                    };
                    s.insert(format!("cell.content@{at}"), content);
                    let f = match model.get_formatted_cell_value(si, *r, *c) {
                        Ok(t) => t,
                        Err(e) => format!("<err {e}>"),
                    };
                    s.insert(format!("cell.fmt@{at}"), f);
                }
            }
        }
    }
    let _ = node;
    s
}

fn col_runs(s: &mut Snap, model: &Model, i: usize, ws: &Worksheet, default_style: &str) {
    // (min, max, width, hidden, style)
    let mut cols: Vec<(i32, i32, String, bool, String)> = Vec::new();
    for c in &ws.cols {
        let w = if c.custom_width {
            c.width * ironcalc_base::COLUMN_WIDTH_FACTOR
        } else {
            90.0
        };
        let st = match c.style {
            None => default_style.to_string(),
            Some(ix) => match style_of_index(&model.workbook.styles, ix) {
                Some(st) => style_json(&st),
                None => format!("<dangling style {ix}>"),
            },
        };
        cols.push((c.min, c.max, fnum(w), c.hidden, st));
    }
    cols.sort_by_key(|c| (c.0, c.1));
    let default_w = fnum(90.0);
    emit_runs(s, i, "col.width", cols.iter().map(|c| (c.0, c.1, c.2.clone())).collect(), &default_w);
    emit_runs(
        s,
        i,
        "col.hidden",
        cols.iter().map(|c| (c.0, c.1, c.3.to_string())).collect(),
        "false",
    );
    emit_runs(s, i, "col.style", cols.iter().map(|c| (c.0, c.1, c.4.clone())).collect(), default_style);
}

fn emit_runs(s: &mut Snap, i: usize, facet: &str, runs: Vec<(i32, i32, String)>, default: &str) {
    let mut merged: Vec<(i32, i32, String)> = Vec::new();
    for (a, b, v) in runs {
        if v == default {
            continue;
        }
        if let Some(last) = merged.last_mut() {
            if last.2 == v && last.1 + 1 == a {
                last.1 = b;
                continue;
            }
        }
        merged.push((a, b, v));
    }
    for (a, b, v) in merged {
        // one entry per column for short runs, so that diffs name the column
        if b - a < 64 {
            for c in a..=b {
                let mut k = format!("{facet}@{i}!{c}");
                while s.contains_key(&k) {
                    k.push_str("#overlap");
                }
                s.insert(k, v.clone());
            }
        } else {
            let mut k = format!("{facet}@{i}![{a}-{b}]");
            while s.contains_key(&k) {
                k.push_str("#overlap");
            }
            s.insert(k, v);
        }
    }
}

/// per-user view state, read raw (not through `get_selected_view`, which hides
/// dangling indices behind defaults)
pub fn view_state(model: &Model) -> Snap {
    let mut s = Snap::new();
    let wb = &model.workbook;
    if let Some(v) = wb.views.get(&0) {
        s.insert("view.sheet@".into(), v.sheet.to_string());
    }
    for (i, ws) in wb.worksheets.iter().enumerate() {
        if let Some(v) = ws.views.get(&0) {
            s.insert(
                format!("view.sel@{i}"),
                format!("cell=({},{}) range={:?}", v.row, v.column, v.range),
            );
        }
    }
    s
}

/// Restriction of a snapshot to entries whose facet passes `keep`.
pub fn restrict(s: &Snap, keep: impl Fn(&str) -> bool) -> Snap {
    s.iter()
        .filter(|(k, _)| keep(facet_of(k)))
        .map(|(k, v)| (k.clone(), v.clone()))
        .collect()
}

/// Rule formulas are compared modulo the printer's own normalisation
/// (`0^#VALUE!%` and `0^(#VALUE!%)` are the same rule): every string field named
/// `formula*` is parsed with the English parser and printed back.
fn normalise_cf_formulas(js: &mut serde_json::Value, wb: &ironcalc_base::types::Workbook, sheet: &str) {
    use ironcalc_base::expressions::parser::{new_parser_english, stringify::to_english_string};
    use ironcalc_base::expressions::types::CellReferenceRC;
    fn walk(v: &mut serde_json::Value, f: &mut dyn FnMut(&str) -> String) {
        match v {
            serde_json::Value::Object(o) => {
                for (k, x) in o.iter_mut() {
                    if k.starts_with("formula") || k == "Formula" {
                        if let serde_json::Value::String(t) = x {
                            *t = f(t);
                            continue;
                        }
                    }
                    walk(x, f);
                }
            }
            serde_json::Value::Array(a) => {
                for x in a {
                    walk(x, f);
                }
            }
            _ => {}
        }
    }
    let names: Vec<String> = wb.worksheets.iter().map(|w| w.name.clone()).collect();
    let mut parser = new_parser_english(names, wb.get_defined_names_with_scope(), wb.tables.clone());
    let ctx = CellReferenceRC { sheet: sheet.to_string(), row: 1, column: 1 };
    let mut f = |t: &str| -> String {
        let body = t.strip_prefix('=').unwrap_or(t);
        let node = parser.parse(body, &ctx);
        to_english_string(&node, &ctx)
    };
    walk(js, &mut f);
}
