//! Workload generator: draws the next event from the run's profile, with
//! arguments made plausible for the current state of the primary node.

use crate::ev::{Ev, A};
use crate::node::{Node, LANGS, LOCALES, TZS};
use crate::rng::Rng;
use ironcalc_base::cf_types::{CfRuleInput, TextOperator, ValueOperator};
use ironcalc_base::language::{get_language, Language};
use ironcalc_base::types::{
    Alignment, Border, BorderItem, BorderStyle, Color, Dxf, DxfFont, Fill, Font, HorizontalAlignment, Link,
    Style, StyleIncludes, Theme, VerticalAlignment,
};

pub const LAST_ROW: i32 = 1_048_576;
pub const LAST_COL: i32 = 16_384;
pub const WIN_ROWS: i32 = 12;
pub const WIN_COLS: i32 = 8;

/// operation families a run may enable (swarm)
#[derive(Clone, Copy, Debug, PartialEq, Eq, Hash)]
pub enum Fam {
    Input,
    Array,
    Clear,
    Style,
    Border,
    NamedStyle,
    Struct,
    Attr,
    Sheet,
    Pane,
    Names,
    Links,
    Cf,
    Clip,
    Fill,
    Settings,
    Nav,
}

pub const ALL_FAMS: [Fam; 17] = [
    Fam::Input,
    Fam::Array,
    Fam::Clear,
    Fam::Style,
    Fam::Border,
    Fam::NamedStyle,
    Fam::Struct,
    Fam::Attr,
    Fam::Sheet,
    Fam::Pane,
    Fam::Names,
    Fam::Links,
    Fam::Cf,
    Fam::Clip,
    Fam::Fill,
    Fam::Settings,
    Fam::Nav,
];

#[derive(Clone, Debug)]
pub struct Profile {
    pub len: usize,
    pub fams: Vec<(Fam, u32)>,
    pub p_undo: f64,
    pub p_redo: f64,
    /// formulas may use dynamic arrays
    pub dynamic: bool,
    /// formulas may mention nonexistent sheets
    pub ghosts: bool,
    /// edge-of-grid coordinates allowed
    pub edges: bool,
    /// probability that an Input is a formula
    pub p_formula: f64,
    /// formulas biased to overflow / non-finite results (C08)
    pub overflow: bool,
    /// generator guards of open known findings are active
    pub guards: bool,
    /// texts, string literals, sheet names, link targets and labels come from the pool of
    /// strings that stress a text serialisation (control characters, XML specials, escapes)
    pub hostile: bool,
}

/// Rendering context for texts in the run's language and locale.
pub struct Loc {
    pub lang: &'static Language,
    pub dec_comma: bool,
}

impl Loc {
    pub fn new(lang: &str, locale: &str) -> Loc {
        let l = get_language(lang).unwrap_or_else(|_| ironcalc_base::language::get_default_language());
        let dec_comma = matches!(locale, "es" | "fr" | "de" | "it");
        Loc { lang: l, dec_comma }
    }
    pub fn arg_sep(&self) -> &'static str {
        if self.dec_comma {
            ";"
        } else {
            ","
        }
    }
    pub fn row_sep(&self) -> &'static str {
        if self.dec_comma {
            "\\"
        } else {
            ";"
        }
    }
    pub fn num(&self, s: &str) -> String {
        if self.dec_comma {
            s.replace('.', ",")
        } else {
            s.to_string()
        }
    }
    pub fn f(&self, name: &str) -> String {
        let f = &self.lang.functions;
        match name {
            "IF" => &f.r#if,
            "AND" => &f.and,
            "OR" => &f.or,
            "NOT" => &f.not,
            "SUM" => &f.sum,
            "MIN" => &f.min,
            "MAX" => &f.max,
            "COUNT" => &f.count,
            "COUNTA" => &f.counta,
            "AVERAGE" => &f.average,
            "ABS" => &f.abs,
            "ROUND" => &f.round,
            "LEN" => &f.len,
            "CONCAT" => &f.concat,
            "ISNUMBER" => &f.isnumber,
            "ISTEXT" => &f.istext,
            "ISBLANK" => &f.isblank,
            "IFERROR" => &f.iferror,
            "N" => &f.n,
            "SEQUENCE" => &f.sequence,
            "TRANSPOSE" => &f.transpose,
            "LAMBDA" => &f.lambda,
            _ => return name.to_string(),
        }
        .clone()
    }
    /// localized name of an error literal given its English name
    pub fn err(&self, e: &str) -> String {
        let x = &self.lang.errors;
        match e {
            "#N/A" => &x.na,
            "#DIV/0!" => &x.div,
            "#VALUE!" => &x.value,
            "#REF!" => &x.r#ref,
            "#NAME?" => &x.name,
            "#NUM!" => &x.num,
            _ => return e.to_string(),
        }
        .clone()
    }
    pub fn bool(&self, b: bool) -> String {
        if b {
            self.lang.booleans.r#true.clone()
        } else {
            self.lang.booleans.r#false.clone()
        }
    }
}

/// What the generator reads from the current state.
pub struct View {
    pub sheets: Vec<String>,
    pub states: Vec<bool>, // visible?
    pub names: Vec<(String, Option<u32>)>,
    pub cf_counts: Vec<usize>,
    pub named_styles: Vec<String>,
    pub links: Vec<(u32, i32, i32)>,
    pub cells: Vec<(u32, i32, i32)>,
    pub formula_cells: Vec<(u32, i32, i32)>,
    pub selected_sheet: u32,
    pub lang: &'static str,
    pub locale: String,
    pub can_undo: bool,
    pub can_redo: bool,
}

impl View {
    pub fn of(node: &Node) -> View {
        let m = node.model();
        let wb = &m.workbook;
        let mut names = Vec::new();
        for dn in &wb.defined_names {
            let scope = dn
                .sheet_id
                .and_then(|id| wb.worksheets.iter().position(|w| w.sheet_id == id))
                .map(|i| i as u32);
            if dn.sheet_id.is_some() && scope.is_none() {
                continue;
            }
            names.push((dn.name.clone(), scope));
        }
        names.sort();
        let mut links = Vec::new();
        let mut cells = Vec::new();
        let mut formula_cells = Vec::new();
        for (i, ws) in wb.worksheets.iter().enumerate() {
            for (r, c) in ws.links.keys() {
                links.push((i as u32, *r, *c));
            }
            for (r, row) in &ws.sheet_data {
                for (c, cell) in row {
                    use ironcalc_base::types::Cell;
                    match cell {
                        Cell::EmptyCell { .. } | Cell::SpillCell { .. } => {}
                        Cell::CellFormula { .. } | Cell::ArrayFormula { .. } => {
                            cells.push((i as u32, *r, *c));
                            formula_cells.push((i as u32, *r, *c));
                        }
                        _ => cells.push((i as u32, *r, *c)),
                    }
                }
            }
        }
        links.sort();
        cells.sort();
        formula_cells.sort();
        View {
            sheets: wb.worksheets.iter().map(|w| w.name.clone()).collect(),
            states: wb
                .worksheets
                .iter()
                .map(|w| w.state == ironcalc_base::types::SheetState::Visible)
                .collect(),
            names,
            cf_counts: wb.worksheets.iter().map(|w| w.conditional_formatting.len()).collect(),
            named_styles: m.get_named_style_list(),
            links,
            cells,
            formula_cells,
            selected_sheet: node.um.get_selected_sheet(),
            lang: node.lang,
            locale: wb.settings.locale.clone(),
            can_undo: node.um.can_undo(),
            can_redo: node.um.can_redo(),
        }
    }
    pub fn nsheets(&self) -> u32 {
        self.sheets.len() as u32
    }
}

// ---------------------------------------------------------------------------
// coordinates

pub fn row(rng: &mut Rng, p: &Profile) -> i32 {
    if p.edges && rng.chance(0.02) {
        *rng.pick(&[LAST_ROW, LAST_ROW - 1, LAST_ROW - 3, 1000])
    } else {
        rng.range(1, WIN_ROWS as i64) as i32
    }
}
pub fn col(rng: &mut Rng, p: &Profile) -> i32 {
    if p.edges && rng.chance(0.02) {
        *rng.pick(&[LAST_COL, LAST_COL - 1, LAST_COL - 3, 100])
    } else {
        rng.range(1, WIN_COLS as i64) as i32
    }
}
pub fn sheet(rng: &mut Rng, v: &View) -> u32 {
    rng.below(v.nsheets().max(1) as u64) as u32
}
pub fn small_area(rng: &mut Rng, p: &Profile, v: &View) -> A {
    let r = row(rng, p);
    let c = col(rng, p);
    let h = rng.range(1, 3) as i32;
    let w = rng.range(1, 3) as i32;
    A {
        sheet: sheet(rng, v),
        row: r,
        column: c,
        width: w.min(LAST_COL - c + 1),
        height: h.min(LAST_ROW - r + 1),
    }
}

pub fn col_name(mut c: i32) -> String {
    let mut s = String::new();
    while c > 0 {
        let rem = ((c - 1) % 26) as u8;
        s.insert(0, (b'A' + rem) as char);
        c = (c - 1) / 26;
    }
    s
}

pub fn quote_sheet(name: &str) -> String {
    let simple = !name.is_empty()
        && name.chars().all(|ch| ch.is_ascii_alphanumeric() || ch == '_')
        && !name.chars().next().map(|c| c.is_ascii_digit()).unwrap_or(true)
        && !looks_like_ref(name);
    if simple {
        name.to_string()
    } else {
        format!("'{}'", name.replace('\'', "''"))
    }
}

fn looks_like_ref(name: &str) -> bool {
    // A1, AB12, R1C1, TRUE/FALSE …: quote them to be safe
    let up = name.to_uppercase();
    let letters = up.chars().take_while(|c| c.is_ascii_alphabetic()).count();
    let digits = up.chars().skip(letters).take_while(|c| c.is_ascii_digit()).count();
    (letters > 0 && letters <= 3 && digits > 0 && letters + digits == up.len())
        || up.starts_with('R') && up.contains('C')
        || up == "TRUE"
        || up == "FALSE"
}

// ---------------------------------------------------------------------------
// text pool and formulas

pub struct FCtx<'a> {
    pub loc: &'a Loc,
    pub v: &'a View,
    pub p: &'a Profile,
    pub host_sheet: u32,
}

const PLAIN_NUMBERS: [&str; 14] = [
    "0", "1", "2", "3", "7", "10", "-4", "42", "100", "0.5", "2.25", "-1.75", "1234.5678", "1E3",
];
const EXTREME_NUMBERS: [&str; 6] = ["1E308", "-1E308", "1E-320", "9007199254740993", "0.1", "123456789012345678"];
const TEXTS: [&str; 16] = [
    "hello",
    "Hello World",
    "a",
    "x y",
    "ünï",
    "日本",
    "it's",
    "say \"hi\"",
    "<b>&amp;</b>",
    "line1\nline2",
    "tab\there",
    " lead",
    "trail ",
    "notformula",
    "#hash",
    "A1",
];

/// What a text format has to escape, preserve or refuse: C0 controls, XML specials and
/// look-alike entities, the `_xHHHH_` escape convention of SpreadsheetML, CR/LF forms,
/// significant white space, non-characters, astral and combining code points.
pub const HOSTILE_TEXTS: [&str; 36] = [
    "\u{1}ctrl",
    "a\u{b}b",
    "bell\u{7}",
    "nul\u{0}nul",
    "_x0041_",
    "_x000D_",
    "_x005F_x0041_",
    "cr\rlf",
    "crlf\r\nx",
    "\r",
    "]]>",
    "<![CDATA[x]]>",
    "&#10;",
    "&lt;",
    "&",
    "<",
    "a<b>c&d\"e'f",
    "\u{1F600} emoji",
    "\u{FFFE}",
    "\u{FFFF}",
    "e\u{301}",
    "\u{200B}zero",
    "  two  spaces  ",
    "\t",
    "\n",
    " ",
    "\u{A0}nbsp",
    "\u{85}nel",
    "\u{2028}ls",
    "\u{FEFF}bom",
    "'",
    "''",
    "\"",
    "\u{7f}del",
    "\u{1b}[0m",
    "x\u{D7FF}\u{E000}y",
];

thread_local! {
    /// set from the profile at the start of every generated event (string literals deep in
    /// the formula grammar have no profile at hand)
    static HOSTILE: std::cell::Cell<bool> = const { std::cell::Cell::new(false) };
}

thread_local! {
    static FULL_OK: std::cell::Cell<bool> = const { std::cell::Cell::new(true) };
}

fn hostile() -> bool {
    HOSTILE.with(|h| h.get())
}

pub fn value_text(rng: &mut Rng, loc: &Loc, p: &Profile) -> String {
    let k = rng.weighted(&[30, 6, 18, 8, 14, 4, 4, 3]);
    match k {
        0 => loc.num(*rng.pick(&PLAIN_NUMBERS)),
        1 => loc.num(*rng.pick(&EXTREME_NUMBERS)),
        2 if p.hostile && rng.chance(0.6) => {
            if rng.chance(0.05) {
                // long text: beyond any buffer, below the 32767 limit of the file format
                "long \u{1F600}<&>".repeat(rng.range(50, 1500) as usize)
            } else {
                rng.pick(&HOSTILE_TEXTS).to_string()
            }
        }
        2 => rng.pick(&TEXTS).to_string(),
        3 => {
            // booleans, localized and English, and errors
            let b = rng.chance(0.5);
            match rng.below(4) {
                0 => loc.bool(b),
                1 => (if b { "TRUE" } else { "FALSE" }).to_string(),
                2 => (if b { "true" } else { "false" }).to_string(),
                _ => loc.err(*rng.pick(&["#N/A", "#DIV/0!", "#VALUE!", "#REF!", "#NAME?", "#NUM!"])),
            }
        }
        4 => {
            // look-alikes: the re-entry-sensitive pool (guarded when a known finding is open)
            let pool: [&str; 14] = [
                "'123", "'TRUE", "'=1+1", "$5", "-$1e3", "10%", "2.5%", "2024-01-15", "12/10", "1,5", "1,234.5",
                "€7", "5€", "1e2",
            ];
            rng.pick(&pool).to_string()
        }
        5 => rng
            .pick(&["https://example.com", "http://a.b/c?d=1&e=2", "mailto:x@y.org", "someone@example.org", "www.example.com"])
            .to_string(),
        6 => String::new(),
        _ => {
            let _ = p;
            rng.pick(&["#N/IMPL!", "1e999", "--1", "+3", "1 000", "(5)", ".5", "5."]).to_string()
        }
    }
}

pub fn cell_ref(rng: &mut Rng, cx: &FCtx) -> String {
    // (guard of KF "reference pushed off the grid": no edge references)
    let edges = cx.p.edges && !cx.p.guards;
    let r = if rng.chance(0.05) && edges { LAST_ROW } else { rng.range(1, WIN_ROWS as i64) as i32 };
    let c = if rng.chance(0.05) && edges { LAST_COL } else { rng.range(1, WIN_COLS as i64) as i32 };
    let ar = rng.chance(0.25);
    let ac = rng.chance(0.25);
    format!(
        "{}{}{}{}{}",
        sheet_prefix(rng, cx),
        if ac { "$" } else { "" },
        col_name(c),
        if ar { "$" } else { "" },
        r
    )
}

fn sheet_prefix(rng: &mut Rng, cx: &FCtx) -> String {
    if rng.chance(0.75) {
        return String::new();
    }
    if cx.p.ghosts && rng.chance(0.15) {
        return format!("{}!", rng.pick(&["Ghost", "'No Such'", "Missing1"]));
    }
    let i = rng.below(cx.v.sheets.len().max(1) as u64) as usize;
    match cx.v.sheets.get(i) {
        Some(n) => format!("{}!", quote_sheet(n)),
        None => String::new(),
    }
}

pub fn range_ref(rng: &mut Rng, cx: &FCtx) -> String {
    range_ref_opt(rng, cx, false)
}

/// `full`: full-column / full-row ranges allowed (aggregates only: an array
/// formula over a million rows costs 0.3 s per evaluation)
pub fn range_ref_opt(rng: &mut Rng, cx: &FCtx, full: bool) -> String {
    let full = full && FULL_OK.with(|f| f.get());
    let k = if full { rng.weighted(&[80, 8, 8]) } else { 0 };
    if !full && cx.p.guards {
        // guard of KF "cycles through array formulas": array formulas read only
        // the data zone A1:C4 of their own sheet and are anchored outside it
        let r0 = rng.range(1, 3) as i32;
        let c0 = rng.range(1, 2) as i32;
        let r1 = r0 + rng.range(0, 1) as i32;
        let c1 = c0 + rng.range(0, 1) as i32;
        return format!("{}{r0}:{}{r1}", col_name(c0), col_name(c1));
    }
    let pre = sheet_prefix(rng, cx);
    match k {
        0 => {
            let r0 = rng.range(1, WIN_ROWS as i64) as i32;
            let c0 = rng.range(1, WIN_COLS as i64) as i32;
            let r1 = (r0 + rng.range(0, 3) as i32).min(LAST_ROW);
            let c1 = (c0 + rng.range(0, 2) as i32).min(LAST_COL);
            // all relative / all absolute / every `$` drawn on its own (running totals such as
            // A$1:A6, mixed corners); now and then the corners are typed the other way round
            let (dc0, dr0, dc1, dr1) = match rng.weighted(&[60, 20, 20]) {
                0 => (false, false, false, false),
                1 => (true, true, true, true),
                _ => (rng.chance(0.5), rng.chance(0.5), rng.chance(0.5), rng.chance(0.5)),
            };
            let d = |b: bool| if b { "$" } else { "" };
            if rng.chance(0.05) {
                format!("{pre}{}{}{}{r1}:{}{}{}{r0}", d(dc1), col_name(c1), d(dr1), d(dc0), col_name(c0), d(dr0))
            } else {
                format!("{pre}{}{}{}{r0}:{}{}{}{r1}", d(dc0), col_name(c0), d(dr0), d(dc1), col_name(c1), d(dr1))
            }
        }
        1 => {
            let c0 = rng.range(1, WIN_COLS as i64) as i32;
            let c1 = c0 + rng.range(0, 1) as i32;
            format!("{pre}{}:{}", col_name(c0), col_name(c1))
        }
        _ => {
            let r0 = rng.range(1, WIN_ROWS as i64) as i32;
            let r1 = r0 + rng.range(0, 1) as i32;
            format!("{pre}{r0}:{r1}")
        }
    }
}

fn string_lit(rng: &mut Rng) -> String {
    if hostile() && rng.chance(0.5) {
        let s = rng.pick(&HOSTILE_TEXTS).replace('"', "\"\"");
        return format!("\"{s}\"");
    }
    let s = *rng.pick(&["", "a", "abc", "1", "12", "TRUE", "x\"\"y", "á"]);
    format!("\"{s}\"")
}

fn number_lit(rng: &mut Rng, cx: &FCtx) -> String {
    if cx.p.overflow && rng.chance(0.5) {
        return cx.loc.num(*rng.pick(&["1E308", "-1E308", "1E-320", "1E200", "0", "-0", "1E-308", "9E307"]));
    }
    cx.loc.num(*rng.pick(&["0", "1", "2", "3", "10", "0.5", "2.5", "100", "1E3"]))
}

pub fn expr(rng: &mut Rng, cx: &FCtx, depth: u32) -> String {
    let leaf = depth == 0 || rng.chance(0.3);
    if leaf {
        return match rng.weighted(&[30, 40, 8, 6, 4, 6]) {
            0 => number_lit(rng, cx),
            1 => cell_ref(rng, cx),
            2 => string_lit(rng),
            3 => cx.loc.bool(rng.chance(0.5)),
            4 => cx.loc.err(*rng.pick(&["#N/A", "#DIV/0!", "#VALUE!", "#REF!"])),
            _ => {
                if cx.v.names.is_empty() {
                    cell_ref(rng, cx)
                } else {
                    rng.pick(&cx.v.names).0.clone()
                }
            }
        };
    }
    let sep = cx.loc.arg_sep();
    match rng.weighted(&[34, 6, 4, 8, 36, 4]) {
        0 => {
            let op = *rng.pick(&["+", "-", "*", "/", "^", "&", "=", "<>", "<", ">", "<=", ">="]);
            let a = expr(rng, cx, depth - 1);
            let b = expr(rng, cx, depth - 1);
            // towers and nested differences: the shapes in which parentheses carry meaning
            if rng.chance(0.25) && matches!(op, "^" | "-" | "/") {
                let c = expr(rng, cx, 0);
                return format!("{a}{op}({b}{op}{c})");
            }
            format!("{a}{op}{b}")
        }
        1 => format!("-{}", expr(rng, cx, depth - 1)),
        2 => format!("{}%", expr(rng, cx, depth - 1)),
        3 => format!("({})", expr(rng, cx, depth - 1)),
        4 => {
            let f = *rng.pick(&[
                "IF", "AND", "OR", "NOT", "SUM", "MIN", "MAX", "COUNT", "COUNTA", "AVERAGE", "ABS", "ROUND", "LEN",
                "CONCAT", "ISNUMBER", "ISTEXT", "ISBLANK", "IFERROR", "N", "SUM", "SUM",
            ]);
            let name = cx.loc.f(f);
            match f {
                "IF" => format!(
                    "{name}({}{sep}{}{sep}{})",
                    expr(rng, cx, depth - 1),
                    expr(rng, cx, depth - 1),
                    expr(rng, cx, depth - 1)
                ),
                "AND" | "OR" | "CONCAT" | "IFERROR" | "ROUND" => {
                    format!("{name}({}{sep}{})", expr(rng, cx, depth - 1), expr(rng, cx, depth - 1))
                }
                "SUM" | "MIN" | "MAX" | "COUNT" | "COUNTA" | "AVERAGE" => {
                    if rng.chance(0.7) {
                        format!("{name}({})", range_ref_opt(rng, cx, true))
                    } else {
                        format!("{name}({}{sep}{})", range_ref_opt(rng, cx, true), expr(rng, cx, depth - 1))
                    }
                }
                "ISBLANK" => format!("{name}({})", cell_ref(rng, cx)),
                _ => format!("{name}({})", expr(rng, cx, depth - 1)),
            }
        }
        _ => {
            // array literal
            let rs = cx.loc.row_sep();
            let a = number_lit(rng, cx);
            let b = number_lit(rng, cx);
            let c = number_lit(rng, cx);
            let d = number_lit(rng, cx);
            if cx.p.dynamic {
                format!("{{{a}{sep}{b}{rs}{c}{sep}{d}}}")
            } else {
                format!("{}({{{a}{sep}{b}{rs}{c}{sep}{d}}})", cx.loc.f("SUM"))
            }
        }
    }
}

pub fn dynamic_formula(rng: &mut Rng, cx: &FCtx) -> String {
    let sep = cx.loc.arg_sep();
    match rng.below(5) {
        0 => format!(
            "={}({}{sep}{})",
            cx.loc.f("SEQUENCE"),
            rng.range(1, 3),
            rng.range(1, 3)
        ),
        // size depends on another cell, bounded so that a typed 1E3 does not make a 1000-row spill
        1 => format!("={}({}(4{sep}{}))", cx.loc.f("SEQUENCE"), cx.loc.f("MIN"), cell_ref(rng, cx)),
        2 => format!("={}", range_ref(rng, cx)),
        3 => format!("={}*{}", range_ref(rng, cx), number_lit(rng, cx)),
        _ => format!("={}({})", cx.loc.f("TRANSPOSE"), range_ref(rng, cx)),
    }
}

pub fn formula(rng: &mut Rng, cx: &FCtx) -> String {
    if cx.p.dynamic && rng.chance(0.25) {
        return dynamic_formula(rng, cx);
    }
    let d = rng.range(1, 3) as u32;
    format!("={}", expr(rng, cx, d))
}

pub fn input_text(rng: &mut Rng, cx: &FCtx) -> String {
    if rng.chance(cx.p.p_formula) {
        formula(rng, cx)
    } else {
        value_text(rng, cx.loc, cx.p)
    }
}

// ---------------------------------------------------------------------------
// styles

pub fn color(rng: &mut Rng) -> Color {
    match rng.below(4) {
        0 => Color::None,
        1 => Color::Theme(rng.range(0, 11) as i32, *rng.pick(&[0.0, 0.4, -0.25])),
        _ => Color::Rgb(rng.pick(&["#FF0000", "#00FF00", "#1A2B3C", "#FFFFFF", "#000000"]).to_string()),
    }
}

pub fn color_param(rng: &mut Rng) -> String {
    match rng.below(4) {
        0 => String::new(),
        1 => format!("[{}, {}]", rng.range(0, 11), rng.pick(&["0", "0.4", "-0.25"])),
        _ => rng.pick(&["#FF0000", "#00FF00", "#1A2B3C", "#FFFFFF", "#000000"]).to_string(),
    }
}

pub const NUM_FMTS: [&str; 12] = [
    "general",
    "0",
    "0.00",
    "#,##0",
    "#,##0.00",
    "0%",
    "0.00%",
    "0.00E+00",
    "yyyy-mm-dd",
    "$#,##0.00",
    "@",
    "0.000",
];

fn border_item(rng: &mut Rng) -> Option<BorderItem> {
    if rng.chance(0.6) {
        return None;
    }
    let style = match rng.below(5) {
        0 => BorderStyle::Thin,
        1 => BorderStyle::Medium,
        2 => BorderStyle::Thick,
        3 => BorderStyle::Double,
        _ => BorderStyle::Dotted,
    };
    Some(BorderItem { style, color: color(rng) })
}

pub fn style(rng: &mut Rng) -> Style {
    let mut s = Style::default();
    if rng.chance(0.5) {
        s.num_fmt = rng.pick(&NUM_FMTS).to_string();
    }
    if rng.chance(0.5) {
        s.font = Font {
            b: rng.chance(0.5),
            i: rng.chance(0.3),
            u: rng.chance(0.2),
            strike: rng.chance(0.1),
            sz: *rng.pick(&[8, 10, 12, 14, 20]),
            color: color(rng),
            ..Font::default()
        };
    }
    if rng.chance(0.4) {
        s.fill = Fill { color: color(rng) };
    }
    if rng.chance(0.3) {
        s.border = Border {
            left: border_item(rng),
            right: border_item(rng),
            top: border_item(rng),
            bottom: border_item(rng),
            ..Border::default()
        };
    }
    if rng.chance(0.3) {
        s.alignment = Some(Alignment {
            horizontal: match rng.below(4) {
                0 => HorizontalAlignment::Center,
                1 => HorizontalAlignment::Left,
                2 => HorizontalAlignment::Right,
                _ => HorizontalAlignment::General,
            },
            vertical: match rng.below(3) {
                0 => VerticalAlignment::Top,
                1 => VerticalAlignment::Center,
                _ => VerticalAlignment::Bottom,
            },
            wrap_text: rng.chance(0.3),
        });
    }
    if rng.chance(0.1) {
        s.quote_prefix = true;
    }
    s
}

pub fn style_path_value(rng: &mut Rng) -> (String, String) {
    let b = |rng: &mut Rng| (if rng.chance(0.5) { "true" } else { "false" }).to_string();
    match rng.below(12) {
        0 => ("font.b".into(), b(rng)),
        1 => ("font.i".into(), b(rng)),
        2 => ("font.u".into(), b(rng)),
        3 => ("font.strike".into(), b(rng)),
        4 => ("font.color".into(), color_param(rng)),
        5 => ("font.size".into(), rng.pick(&["8", "11", "14", "20"]).to_string()),
        6 => ("font.size_delta".into(), rng.pick(&["1", "-1", "2"]).to_string()),
        7 => ("fill.bg_color".into(), color_param(rng)),
        8 => ("num_fmt".into(), rng.pick(&NUM_FMTS).to_string()),
        9 => (
            "alignment.horizontal".into(),
            rng.pick(&["center", "left", "right", "general", "justify"]).to_string(),
        ),
        10 => ("alignment.vertical".into(), rng.pick(&["top", "center", "bottom"]).to_string()),
        _ => ("alignment.wrap_text".into(), b(rng)),
    }
}

fn dxf(rng: &mut Rng) -> Dxf {
    Dxf {
        font: if rng.chance(0.6) {
            Some(DxfFont { b: Some(rng.chance(0.5)), color: color(rng), ..DxfFont::default() })
        } else {
            None
        },
        fill: if rng.chance(0.6) { Some(Fill { color: color(rng) }) } else { None },
        border: None,
        num_fmt: None,
        alignment: None,
    }
}

pub fn cf_rule(rng: &mut Rng, cx: &FCtx) -> CfRuleInput {
    // a rule formula is evaluated once per cell of its range and per evaluation: a
    // whole-column aggregate in it costs seconds, which only trips the watchdog
    FULL_OK.with(|f| f.set(false));
    let r = cf_rule_inner(rng, cx);
    FULL_OK.with(|f| f.set(true));
    r
}

fn cf_rule_inner(rng: &mut Rng, cx: &FCtx) -> CfRuleInput {
    match rng.below(5) {
        0 => CfRuleInput::Formula {
            formula: expr(rng, cx, 2),
            format: dxf(rng),
            stop_if_true: rng.chance(0.2),
        },
        1 => CfRuleInput::CellIs {
            operator: match rng.below(3) {
                0 => ValueOperator::GreaterThan,
                1 => ValueOperator::Equal,
                _ => ValueOperator::Between,
            },
            formula: expr(rng, cx, 1),
            formula2: Some(expr(rng, cx, 1)),
            format: dxf(rng),
            stop_if_true: false,
        },
        2 => CfRuleInput::Text {
            operator: TextOperator::Contains,
            value: "a".into(),
            format: dxf(rng),
            stop_if_true: false,
        },
        3 => CfRuleInput::Blanks { format: dxf(rng), stop_if_true: false },
        _ => CfRuleInput::NotBlanks { format: dxf(rng), stop_if_true: rng.chance(0.5) },
    }
}

pub fn a1_range(rng: &mut Rng, p: &Profile) -> String {
    let r0 = row(rng, p).min(WIN_ROWS);
    let c0 = col(rng, p).min(WIN_COLS);
    let r1 = r0 + rng.range(0, 3) as i32;
    let c1 = c0 + rng.range(0, 2) as i32;
    if r0 == r1 && c0 == c1 && rng.chance(0.5) {
        format!("{}{}", col_name(c0), r0)
    } else {
        format!("{}{}:{}{}", col_name(c0), r0, col_name(c1), r1)
    }
}

const SHEET_NAMES: [&str; 12] = [
    "Data", "My Sheet", "O'Brien", "Q1-24", "Über", "A1", "R1C1", "TRUE", "2024", "Sheet9", "x.y", "Sum(1)",
];
const DEF_NAMES: [&str; 8] = ["rate", "Total", "myRange", "Tax_2024", "dbl", "_x", "Zeta", "rate2"];

pub fn name_formula(rng: &mut Rng, cx: &FCtx) -> String {
    let i = rng.below(cx.v.sheets.len().max(1) as u64) as usize;
    let sh = cx.v.sheets.get(i).map(|s| quote_sheet(s)).unwrap_or_else(|| "Sheet1".into());
    let r = rng.range(1, WIN_ROWS as i64);
    let c = col_name(rng.range(1, WIN_COLS as i64) as i32);
    let sep = cx.loc.arg_sep();
    match rng.below(6) {
        0 | 1 => format!("{sh}!${c}${r}"),
        2 | 3 => format!("{sh}!${c}${r}:${}${}", col_name(WIN_COLS), r + 2),
        4 => format!("=LAMBDA(x{sep}x*2)"),
        _ => format!("{sh}!{c}{r}"),
    }
}

// ---------------------------------------------------------------------------
// the main draw

fn fam_weight(p: &Profile, f: Fam) -> u32 {
    p.fams.iter().find(|(g, _)| *g == f).map(|(_, w)| *w).unwrap_or(0)
}

pub fn next_user_event(rng: &mut Rng, p: &Profile, v: &View) -> Ev {
    HOSTILE.with(|h| h.set(p.hostile));
    let loc = Loc::new(v.lang, &v.locale);
    let ws: Vec<u32> = ALL_FAMS.iter().map(|f| fam_weight(p, *f)).collect();
    let fam = ALL_FAMS[rng.weighted(&ws)];
    let sh = sheet(rng, v);
    let cx = FCtx { loc: &loc, v, p, host_sheet: sh };
    match fam {
        Fam::Input => Ev::Input { sheet: sh, row: row(rng, p), col: col(rng, p), text: input_text(rng, &cx) },
        Fam::Array => {
            let mut r = row(rng, p).min(WIN_ROWS);
            let mut c = col(rng, p).min(WIN_COLS);
            if p.guards {
                r = r.max(5);
                c = c.max(4);
            }
            Ev::ArrayFormula {
                sheet: sh,
                row: r,
                col: c,
                w: rng.range(1, 3) as i32,
                h: rng.range(1, 3) as i32,
                text: if rng.chance(0.5) || p.guards {
                    format!("={}*{}", range_ref(rng, &cx), number_lit(rng, &cx))
                } else {
                    formula(rng, &cx)
                },
            }
        }
        Fam::Clear => {
            let a = small_area(rng, p, v);
            match rng.below(5) {
                0 | 1 => Ev::ClearContents { a },
                2 => Ev::ClearAll { a },
                3 => Ev::ClearFormatting { a },
                _ => {
                    // full rows / columns formatting clear
                    if rng.chance(0.5) {
                        Ev::ClearFormatting {
                            a: A { sheet: a.sheet, row: 1, column: a.column, width: a.width, height: LAST_ROW },
                        }
                    } else {
                        Ev::ClearFormatting {
                            a: A { sheet: a.sheet, row: a.row, column: 1, width: LAST_COL, height: a.height },
                        }
                    }
                }
            }
        }
        Fam::Style => {
            let (path, value) = style_path_value(rng);
            let a = small_area(rng, p, v);
            let a = match rng.below(6) {
                0 => A { sheet: a.sheet, row: 1, column: a.column, width: a.width.min(2), height: LAST_ROW },
                1 => A { sheet: a.sheet, row: a.row, column: 1, width: LAST_COL, height: a.height.min(2) },
                _ => a,
            };
            if rng.chance(0.15) {
                let h = rng.range(1, 2) as usize;
                let w = rng.range(1, 2) as usize;
                let styles = (0..h).map(|_| (0..w).map(|_| style(rng)).collect()).collect();
                let r0 = a.row.min(WIN_ROWS);
                let c0 = a.column.min(WIN_COLS);
                Ev::PasteStyles {
                    sheet: a.sheet,
                    r0,
                    c0,
                    r1: r0 + rng.range(0, 2) as i32,
                    c1: c0 + rng.range(0, 2) as i32,
                    styles,
                }
            } else {
                Ev::StyleRange { a, path, value }
            }
        }
        Fam::Border => Ev::Border {
            a: small_area(rng, p, v),
            kind: rng
                .pick(&["All", "Inner", "Outer", "Top", "Right", "Bottom", "Left", "CenterH", "CenterV", "None"])
                .to_string(),
            style: rng.pick(&["thin", "medium", "thick", "double", "dotted"]).to_string(),
            color: rng.pick(&["#FF0000", "#000000", ""]).to_string(),
        },
        Fam::NamedStyle => {
            let custom: Vec<&String> = v
                .named_styles
                .iter()
                .filter(|n| n.starts_with("ns"))
                .collect();
            match rng.below(5) {
                0 | 1 => Ev::CreateNamedStyle {
                    name: format!("ns{}", rng.range(1, 4)),
                    style: style(rng),
                    includes: includes(rng),
                },
                2 if !custom.is_empty() => {
                    let n = (*rng.pick(&custom)).clone();
                    Ev::UpdateNamedStyle {
                        new_name: if rng.chance(0.3) { format!("ns{}", rng.range(1, 6)) } else { n.clone() },
                        name: n,
                        style: style(rng),
                        includes: includes(rng),
                    }
                }
                3 if !custom.is_empty() => Ev::DeleteNamedStyle { name: (*rng.pick(&custom)).clone() },
                _ => {
                    let mut pool: Vec<String> = v.named_styles.clone();
                    pool.push("Percent".into());
                    pool.push("Good".into());
                    let r0 = rng.range(1, WIN_ROWS as i64) as i32;
                    let c0 = rng.range(1, WIN_COLS as i64) as i32;
                    Ev::ApplyNamedStyle {
                        sheet: sh,
                        r0,
                        c0,
                        r1: r0 + rng.range(0, 2) as i32,
                        c1: c0 + rng.range(0, 2) as i32,
                        name: rng.pick(&pool).clone(),
                    }
                }
            }
        }
        Fam::Struct => {
            let n = rng.range(1, 3) as i32;
            match rng.below(6) {
                0 => Ev::InsertRows { sheet: sh, row: row(rng, p), n },
                1 => Ev::InsertCols { sheet: sh, col: col(rng, p), n },
                2 => Ev::DeleteRows { sheet: sh, row: row(rng, p).min(LAST_ROW - 3), n },
                3 => Ev::DeleteCols { sheet: sh, col: col(rng, p).min(LAST_COL - 3), n },
                4 => {
                    let r = rng.range(1, WIN_ROWS as i64) as i32;
                    let mut d = rng.range(-4, 4) as i32;
                    if r + d < 1 {
                        d = 1 - r;
                    }
                    Ev::MoveRows { sheet: sh, row: r, n: rng.range(1, 2) as i32, delta: d }
                }
                _ => {
                    let c = rng.range(1, WIN_COLS as i64) as i32;
                    let mut d = rng.range(-4, 4) as i32;
                    if c + d < 1 {
                        d = 1 - c;
                    }
                    Ev::MoveCols { sheet: sh, col: c, n: rng.range(1, 2) as i32, delta: d }
                }
            }
        }
        Fam::Attr => {
            let c0 = col(rng, p).min(LAST_COL - 2);
            let r0 = row(rng, p).min(LAST_ROW - 2);
            let span = rng.range(0, 2) as i32;
            match rng.below(4) {
                0 => Ev::ColsWidth { sheet: sh, c0, c1: c0 + span, w: *rng.pick(&[90.0, 20.0, 135.5, 0.0, 300.0]) },
                1 => Ev::RowsHeight { sheet: sh, r0, r1: r0 + span, h: *rng.pick(&[25.0, 10.0, 40.5, 0.0, 100.0]) },
                2 => Ev::ColsHidden { sheet: sh, c0, c1: c0 + span, hidden: rng.chance(0.6) },
                _ => Ev::RowsHidden { sheet: sh, r0, r1: r0 + span, hidden: rng.chance(0.6) },
            }
        }
        Fam::Sheet => {
            let n = v.nsheets();
            // a single-sheet workbook gets a second sheet first: cross-sheet references,
            // moves and cuts between sheets need one
            if n == 1 && rng.chance(0.6) {
                return if rng.chance(0.5) { Ev::NewSheet } else { Ev::DuplicateSheet { sheet: sh } };
            }
            match rng.below(9) {
                0 if n < 4 => Ev::NewSheet,
                1 if n < 4 => Ev::DuplicateSheet { sheet: sh },
                2 if n > 1 => Ev::DeleteSheet { sheet: sh },
                3 | 4 => {
                    let mut name = if p.hostile && rng.chance(0.6) {
                        rng.pick(&["A&B", "<x>", "ünï 日本", "a\"b", "\u{1F600}", "x;y", "it's", "a>b", "_x0041_", " lead", "tab\tname", "&amp;"]).to_string()
                    } else {
                        rng.pick(&SHEET_NAMES).to_string()
                    };
                    if v.sheets.iter().any(|s| s.to_lowercase() == name.to_lowercase()) {
                        name = format!("{name}{}", rng.range(2, 9));
                    }
                    Ev::RenameSheet { sheet: sh, name }
                }
                5 if n > 1 => Ev::MoveSheet { from: sh, to: sheet(rng, v) },
                6 if v.states.iter().filter(|s| **s).count() > 1 => Ev::HideSheet { sheet: sh },
                7 => Ev::UnhideSheet { sheet: sh },
                _ => Ev::SheetColor { sheet: sh, color: color_param(rng) },
            }
        }
        Fam::Pane => match rng.below(3) {
            0 => Ev::FrozenRows { sheet: sh, n: rng.range(0, 4) as i32 },
            1 => Ev::FrozenCols { sheet: sh, n: rng.range(0, 3) as i32 },
            _ => Ev::GridLines { sheet: sh, show: rng.chance(0.5) },
        },
        Fam::Names => {
            let scope = if rng.chance(0.3) { Some(sh) } else { None };
            match rng.below(5) {
                0 | 1 => Ev::NewName { name: rng.pick(&DEF_NAMES).to_string(), scope, formula: name_formula(rng, &cx) },
                2 | 3 if !v.names.is_empty() => {
                    let (n, s) = rng.pick(&v.names).clone();
                    Ev::UpdateName {
                        new_name: if rng.chance(0.4) { rng.pick(&DEF_NAMES).to_string() } else { n.clone() },
                        name: n,
                        scope: s,
                        new_scope: if rng.chance(0.2) { scope } else { s },
                        formula: name_formula(rng, &cx),
                    }
                }
                4 if !v.names.is_empty() => {
                    let (n, s) = rng.pick(&v.names).clone();
                    Ev::DeleteName { name: n, scope: s }
                }
                _ => Ev::NewName { name: rng.pick(&DEF_NAMES).to_string(), scope, formula: name_formula(rng, &cx) },
            }
        }
        Fam::Links => {
            if !v.links.is_empty() && rng.chance(0.3) {
                let (s, r, c) = *rng.pick(&v.links);
                Ev::DeleteLink { sheet: s, row: r, col: c }
            } else {
                let link = if rng.chance(0.6) {
                    if p.hostile && rng.chance(0.6) {
                        Link::External {
                            target: rng.pick(&["https://example.com/?a=1&b=<2>", "https://example.com/\"q\"", "https://ex.com/ü 日本", "x.xlsx#'My Sheet'!A1", "https://e.com/#frag#2", "mailto:a@b.c?subject=<&>"]).to_string(),
                            tooltip: if rng.chance(0.5) { Some(rng.pick(&HOSTILE_TEXTS).to_string()) } else { None },
                        }
                    } else {
                        Link::External {
                            target: rng.pick(&["https://example.com", "mailto:a@b.c", "file.xlsx#Sheet1!A1"]).to_string(),
                            tooltip: if rng.chance(0.3) { Some("tip".into()) } else { None },
                        }
                    }
                } else {
                    Link::Internal { location: "Sheet1!A3".into(), tooltip: None }
                };
                Ev::SetLink {
                    sheet: sh,
                    row: row(rng, p),
                    col: col(rng, p),
                    link,
                    label: if rng.chance(0.5) {
                        Some(if p.hostile && rng.chance(0.5) { rng.pick(&HOSTILE_TEXTS).to_string() } else { rng.pick(&["click", "12", "label"]).to_string() })
                    } else {
                        None
                    },
                }
            }
        }
        Fam::Cf => {
            let cnt = v.cf_counts.get(sh as usize).copied().unwrap_or(0);
            match rng.below(6) {
                0 | 1 => Ev::AddCf { sheet: sh, range: a1_range(rng, p), rule: cf_rule(rng, &cx) },
                2 if cnt > 0 => Ev::UpdateCf {
                    sheet: sh,
                    index: rng.below(cnt as u64) as u32,
                    range: a1_range(rng, p),
                    rule: cf_rule(rng, &cx),
                },
                3 if cnt > 0 => Ev::DeleteCf { sheet: sh, index: rng.below(cnt as u64) as u32 },
                4 if cnt > 0 => Ev::RaiseCf { sheet: sh, index: rng.below(cnt as u64) as u32 },
                5 if cnt > 0 => Ev::LowerCf { sheet: sh, index: rng.below(cnt as u64) as u32 },
                _ => Ev::AddCf { sheet: sh, range: a1_range(rng, p), rule: cf_rule(rng, &cx) },
            }
        }
        Fam::Clip => {
            if rng.chance(0.15) {
                let a = small_area(rng, p, v);
                return Ev::PasteCsv {
                    a: A { width: 1, height: 1, ..a },
                    csv: rng.pick(&["1\t2\n3\t4", "a\tb", "5", "x\t=1+1\n\"q\"\"r\"\t7", ""]).to_string(),
                };
            }
            let r0 = rng.range(1, WIN_ROWS as i64) as i32;
            let c0 = rng.range(1, WIN_COLS as i64) as i32;
            Ev::CopyPaste {
                src_sheet: sh,
                r0,
                c0,
                r1: r0 + rng.range(0, 2) as i32,
                c1: c0 + rng.range(0, 2) as i32,
                dst_sheet: if rng.chance(0.8) { sh } else { sheet(rng, v) },
                dr: rng.range(1, WIN_ROWS as i64) as i32,
                dc: rng.range(1, WIN_COLS as i64) as i32,
                cut: rng.chance(0.4),
            }
        }
        Fam::Fill => {
            let r0 = rng.range(1, WIN_ROWS as i64 - 2) as i32;
            let c0 = rng.range(1, WIN_COLS as i64 - 2) as i32;
            let a = A { sheet: sh, row: r0, column: c0, width: rng.range(1, 2) as i32, height: rng.range(1, 2) as i32 };
            if rng.chance(0.5) {
                let to = if rng.chance(0.8) { a.row + a.height - 1 + rng.range(1, 3) as i32 } else { (a.row - rng.range(1, 2) as i32).max(1) };
                Ev::AutoFillRows { a, to_row: to }
            } else {
                let to = if rng.chance(0.8) { a.column + a.width - 1 + rng.range(1, 3) as i32 } else { (a.column - rng.range(1, 2) as i32).max(1) };
                Ev::AutoFillCols { a, to_col: to }
            }
        }
        Fam::Settings => match rng.below(4) {
            0 => Ev::SetLocale { locale: rng.pick(&LOCALES).to_string() },
            1 => Ev::SetTimezone { tz: rng.pick(&TZS).to_string() },
            2 => Ev::SetWbName { name: rng.pick(&["model", "Book 2", "ünï"]).to_string() },
            _ => {
                let mut t = Theme::default();
                if rng.chance(0.7) {
                    t.name = "Custom".into();
                    t.accent1 = "#112233".into();
                    t.hlink = rng.pick(&["#0563C1", "#AA00AA"]).to_string();
                }
                Ev::SetTheme { theme: t }
            }
        },
        Fam::Nav => match rng.below(9) {
            0 => Ev::SelectSheet { sheet: sh },
            1 | 2 => Ev::SelectCell { row: row(rng, p), col: col(rng, p) },
            3 => Ev::Arrow { dir: rng.below(4) as u8 },
            4 => Ev::AreaSelecting { row: row(rng, p), col: col(rng, p) },
            5 => Ev::ExpandRange {
                key: rng.pick(&["ArrowRight", "ArrowLeft", "ArrowUp", "ArrowDown"]).to_string(),
            },
            6 => {
                if rng.chance(0.5) {
                    Ev::PageDown
                } else {
                    Ev::PageUp
                }
            }
            7 => Ev::NavEdge { dir: rng.below(4) as u8 },
            _ => Ev::WindowSize { w: *rng.pick(&[800.0, 300.0, 1500.0]), h: *rng.pick(&[600.0, 200.0, 1000.0]) },
        },
    }
}

fn includes(rng: &mut Rng) -> StyleIncludes {
    if rng.chance(0.6) {
        StyleIncludes::default()
    } else {
        StyleIncludes {
            number_format: rng.chance(0.5),
            font: rng.chance(0.5),
            fill: rng.chance(0.5),
            border: rng.chance(0.5),
            alignment: rng.chance(0.5),
            protection: rng.chance(0.5),
        }
    }
}

/// Swarm draw of the operation families for one run.
pub fn draw_fams(rng: &mut Rng, base: &[(Fam, u32)]) -> Vec<(Fam, u32)> {
    let mut out = Vec::new();
    for (f, w) in base {
        // Input always on; others on with probability 0.6
        if *f == Fam::Input || rng.chance(0.6) {
            let scale = *rng.pick(&[1u32, 1, 2, 3]);
            out.push((*f, w * scale));
        }
    }
    out
}

pub fn pick_lang(rng: &mut Rng) -> &'static str {
    if rng.chance(0.4) {
        "en"
    } else {
        LANGS[rng.below(LANGS.len() as u64) as usize]
    }
}
pub fn pick_locale(rng: &mut Rng) -> &'static str {
    if rng.chance(0.4) {
        "en"
    } else {
        LOCALES[rng.below(LOCALES.len() as u64) as usize]
    }
}
