//! C10 (language / locale switches change nothing that is stored or computed), C18
//! (typing back what the editor shows reproduces the cell) and C32 (defined names are
//! stable under edits): configuration switches, re-typing and name / sheet operations are
//! events inside editing histories; what must not move is read before and after each.

use crate::ev::Ev;
use crate::oracle::{Abandon, Oracle, Verdict, Violation};
use crate::snap::{cell_kind, snapshot, typed_value, DiffLine, Snap};
use crate::world::{StepRes, World};
use ironcalc_base::types::Cell;
use ironcalc_base::Model;
use std::collections::BTreeMap;

#[derive(Clone, Copy, PartialEq, Eq, Debug)]
pub enum Focus {
    /// C10
    Config,
    /// C18
    Retype,
    /// C32
    Names,
}

/// what is stored: internal (R1C1, English) formula text of every formula cell, every
/// defined name, every conditional-format rule
fn stored(model: &Model) -> BTreeMap<String, String> {
    let mut m = BTreeMap::new();
    for (si, ws) in model.workbook.worksheets.iter().enumerate() {
        for (r, row) in &ws.sheet_data {
            for (c, cell) in row {
                if let Cell::CellFormula { f, .. } | Cell::ArrayFormula { f, .. } = cell {
                    let text = ws.shared_formulas.get(*f as usize).cloned().unwrap_or_else(|| format!("<dangling formula index {f}>"));
                    m.insert(format!("cell.formula@{si}!R{r}C{c}"), text);
                }
            }
        }
        for (k, cf) in ws.conditional_formatting.iter().enumerate() {
            m.insert(format!("cf@{si}#{k}"), format!("{} {}", cf.range, serde_json::to_string(&cf.cf_rule).unwrap_or_default()));
        }
    }
    for dn in &model.workbook.defined_names {
        m.insert(format!("name@{}|{:?}", dn.name.to_lowercase(), dn.sheet_id), format!("{} = {}", dn.name, dn.formula));
    }
    m
}

fn values(model: &Model) -> BTreeMap<String, String> {
    let mut m = BTreeMap::new();
    for (si, ws) in model.workbook.worksheets.iter().enumerate() {
        for (r, row) in &ws.sheet_data {
            for (c, cell) in row {
                if matches!(cell, Cell::EmptyCell { .. }) {
                    continue;
                }
                m.insert(format!("cell.value@{si}!R{r}C{c}"), format!("{} | {}", cell_kind(cell), typed_value(cell, &model.workbook.shared_strings)));
            }
        }
    }
    m
}

fn diff_maps(a: &BTreeMap<String, String>, b: &BTreeMap<String, String>, what: &str) -> Vec<DiffLine> {
    let mut d = Vec::new();
    for (k, v) in a {
        let w = b.get(k);
        if w != Some(v) {
            let (facet, at) = k.split_once('@').unwrap_or((k, ""));
            d.push(DiffLine { facet: facet.to_string(), at: at.to_string(), expected: format!("{v} ({what})"), actual: w.cloned().unwrap_or_else(|| "<absent>".into()) });
        }
    }
    for (k, w) in b {
        if !a.contains_key(k) {
            let (facet, at) = k.split_once('@').unwrap_or((k, ""));
            d.push(DiffLine { facet: facet.to_string(), at: at.to_string(), expected: format!("<absent> ({what})"), actual: w.clone() });
        }
    }
    d
}

/// a number to the 15 significant digits the engine displays
fn fifteen(v: &str) -> String {
    match v.strip_prefix("n:").and_then(|x| x.parse::<f64>().ok()) {
        Some(x) => format!("n:{x:.14e}"),
        None => v.to_string(),
    }
}

struct Pre {
    stored: BTreeMap<String, String>,
    values: BTreeMap<String, String>,
    snap: Snap,
    names_of_sheets: Vec<String>,
}

pub struct Stability {
    focus: Focus,
    pre: Option<Pre>,
    switches: u64,
    retypes: u64,
    retype_kinds: BTreeMap<String, u64>,
    name_events: u64,
    formulas_compared: u64,
    values_compared: u64,
    skipped_stale: u64,
}

impl Stability {
    pub fn new(focus: Focus) -> Stability {
        Stability { focus, pre: None, switches: 0, retypes: 0, retype_kinds: BTreeMap::new(), name_events: 0, formulas_compared: 0, values_compared: 0, skipped_stale: 0 }
    }

    fn wants(&self, ev: &Ev) -> bool {
        match self.focus {
            Focus::Config => matches!(ev, Ev::SetLanguage { .. } | Ev::SetLocale { .. } | Ev::Retype { .. }),
            Focus::Retype => matches!(ev, Ev::Retype { .. }),
            Focus::Names => matches!(
                ev,
                Ev::SetLanguage { .. }
                    | Ev::SetLocale { .. }
                    | Ev::RenameSheet { .. }
                    | Ev::MoveSheet { .. }
                    | Ev::DeleteSheet { .. }
                    | Ev::NewSheet
                    | Ev::DuplicateSheet { .. }
                    | Ev::Restart { .. }
                    | Ev::XlsxRestart
                    | Ev::UpdateName { .. }
            ),
        }
    }
}

impl Oracle for Stability {
    fn init(&mut self, _w: &World) {}

    fn before(&mut self, w: &World, ev: &Ev) {
        self.pre = if self.wants(ev) {
            let m = w.primary.model();
            Some(Pre { stored: stored(m), values: values(m), snap: snapshot(&w.primary), names_of_sheets: m.workbook.worksheets.iter().map(|s| s.get_name()).collect() })
        } else {
            None
        };
    }

    fn after(&mut self, w: &mut World, ev: &Ev, res: &StepRes, idx: usize) -> Verdict {
        let kind = ev.kind();
        if let Some(p) = &res.panic {
            if self.wants(ev) {
                return Verdict::Violation(Violation::simple("panic", idx, kind, "panic", p.clone()));
            }
            return Verdict::Abandon(Abandon(format!("panic in {kind}: {p}")));
        }
        let pre = match self.pre.take() {
            Some(p) => p,
            None => return Verdict::Ok,
        };
        if w.primary.stale || w.primary.paused {
            self.skipped_stale += 1;
            return Verdict::Ok;
        }
        let model = w.primary.model();
        let mut d: Vec<DiffLine> = Vec::new();
        let oracle;
        match ev {
            Ev::SetLanguage { .. } | Ev::SetLocale { .. } if self.focus != Focus::Retype => {
                if res.result.is_err() {
                    return Verdict::Ok;
                }
                oracle = if matches!(ev, Ev::SetLanguage { .. }) { "language-switch" } else { "locale-switch" };
                self.switches += 1;
                let st = stored(model);
                let filter = |m: &BTreeMap<String, String>| -> BTreeMap<String, String> {
                    if self.focus == Focus::Names {
                        m.iter().filter(|(k, _)| k.starts_with("name@")).map(|(k, v)| (k.clone(), v.clone())).collect()
                    } else {
                        m.clone()
                    }
                };
                let (a, b) = (filter(&pre.stored), filter(&st));
                self.formulas_compared += a.len() as u64;
                d.extend(diff_maps(&a, &b, "stored before the switch"));
                let mut vals = values(model);
                let mut before = pre.values.clone();
                if matches!(ev, Ev::SetLocale { .. }) {
                    // the implicit conversion of a text to a number follows the locale: formulas
                    // that (transitively) read a text cell may legitimately change
                    let units = crate::deps::units(model);
                    let mut seeds = std::collections::HashSet::new();
                    for (i, u) in units.iter().enumerate() {
                        let reads_text = u.opaque
                            || u.reads.iter().any(|r| {
                                model.workbook.worksheets.get(r.sheet as usize).map(|ws| ws.sheet_data.iter().any(|(row, cols)| *row >= r.r0 && *row <= r.r1 && cols.iter().any(|(c, cell)| *c >= r.c0 && *c <= r.c1 && matches!(cell, Cell::SharedString { .. })))).unwrap_or(false)
                            });
                        if reads_text {
                            seeds.insert(i);
                        }
                    }
                    for i in crate::deps::downstream(&units, &seeds) {
                        let u = &units[i];
                        for r in u.block.r0..=u.block.r1 {
                            for c in u.block.c0..=u.block.c1 {
                                let k = format!("cell.value@{}!R{r}C{c}", u.sheet);
                                before.remove(&k);
                                vals.remove(&k);
                            }
                        }
                    }
                }
                self.values_compared += before.len() as u64;
                d.extend(diff_maps(&before, &vals, "value before the switch"));
            }
            Ev::Retype { sheet, row, col } => {
                oracle = "retype-reproduces";
                let at = format!("{sheet}!R{row}C{col}");
                let k0 = pre.snap.get(&format!("cell.kind@{at}")).cloned();
                let kind0 = match k0 {
                    Some(k) => k,
                    // nothing there: typing "" into an empty cell
                    None => return Verdict::Ok,
                };
                if kind0.starts_with("spill of") || kind0.starts_with("cse") {
                    // typing into a spill child / over a CSE anchor is another operation
                    return Verdict::Ok;
                }
                self.retypes += 1;
                *self.retype_kinds.entry(kind0.split(' ').next().unwrap_or("").to_string()).or_insert(0) += 1;
                if let Err(e) = &res.result {
                    d.push(DiffLine { facet: "result".into(), at: at.clone(), expected: "Ok (typing back what the editor shows)".into(), actual: format!("Err({e})") });
                } else {
                    let post = snapshot(&w.primary);
                    for f in ["cell.content", "cell.kind", "cell.style", "cell.value"] {
                        let a = pre.snap.get(&format!("{f}@{at}")).cloned().unwrap_or_else(|| "<absent>".into());
                        let b = post.get(&format!("{f}@{at}")).cloned().unwrap_or_else(|| "<absent>".into());
                        // (whether a 1x1 result is stored as an array anchor is decided at typing time)
                        let norm_kind = |k: &str| if k == "dyn 1x1" { "formula".to_string() } else { k.to_string() };
                        let same = match f {
                            "cell.value" => fifteen(&a) == fifteen(&b),
                            "cell.kind" => norm_kind(&a) == norm_kind(&b),
                            _ => a == b,
                        };
                        if !same {
                            d.push(DiffLine { facet: f.into(), at: at.clone(), expected: format!("{a} (before typing the shown content back)"), actual: b });
                        }
                    }
                    // the stored formula is the same formula
                    let key = format!("cell.formula@{at}");
                    let st = stored(model);
                    if let Some(f0) = pre.stored.get(&key) {
                        self.formulas_compared += 1;
                        if st.get(&key) != Some(f0) {
                            d.push(DiffLine { facet: "cell.formula".into(), at: at.clone(), expected: format!("{f0} (stored before typing the shown formula back)"), actual: st.get(&key).cloned().unwrap_or_else(|| "<no formula>".into()) });
                        }
                    }
                }
            }
            Ev::UpdateName { name, scope, new_name, new_scope, formula: _ } if self.focus == Focus::Names => {
                if res.result.is_err() {
                    return Verdict::Ok;
                }
                oracle = "name-update";
                self.name_events += 1;
                // a pure rename (same scope): no value changes, users of the name follow
                // (only when the name is the only one of that spelling: a global and a local
                // name may share it, and the event's scope is an index, the stored one an id)
                let homonyms = pre.stored.keys().filter(|k| k.starts_with(&format!("name@{}|", name.to_lowercase()))).count();
                if scope == new_scope && name.to_lowercase() != new_name.to_lowercase() && homonyms == 1 {
                    let vals = values(model);
                    self.values_compared += pre.values.len() as u64;
                    // the definition may have changed too: only compare when it did not
                    let def0 = pre.stored.iter().find(|(k, _)| k.starts_with(&format!("name@{}|", name.to_lowercase()))).map(|(_, v)| v.split_once(" = ").map(|x| x.1.to_string()).unwrap_or_default());
                    let def1 = stored(model).iter().find(|(k, _)| k.starts_with(&format!("name@{}|", new_name.to_lowercase()))).map(|(_, v)| v.split_once(" = ").map(|x| x.1.to_string()).unwrap_or_default());
                    if def0.is_some() && def0 == def1 {
                        d.extend(diff_maps(&pre.values, &vals, "value before the name was renamed"));
                    }
                }
            }
            Ev::RenameSheet { .. } | Ev::MoveSheet { .. } | Ev::DeleteSheet { .. } | Ev::NewSheet | Ev::DuplicateSheet { .. } | Ev::Restart { .. } | Ev::XlsxRestart if self.focus == Focus::Names => {
                if res.result.is_err() || (matches!(ev, Ev::Restart { .. } | Ev::XlsxRestart) && !res.restarted) {
                    return Verdict::Ok;
                }
                oracle = "names-survive";
                self.name_events += 1;
                // names that do not mention (and are not scoped to) the sheet operated on
                let touched: Option<String> = match ev {
                    Ev::RenameSheet { sheet, .. } | Ev::DeleteSheet { sheet } => pre.names_of_sheets.get(*sheet as usize).cloned(),
                    _ => None,
                };
                let sheet_ids_before: Vec<u32> = Vec::new();
                let _ = sheet_ids_before;
                let st = stored(model);
                for (k, v) in pre.stored.iter().filter(|(k, _)| k.starts_with("name@")) {
                    let mentions = match &touched {
                        Some(t) => v.to_lowercase().replace('\'', "").contains(&t.to_lowercase().replace('\'', "")) || !k.ends_with("|None"),
                        None => false,
                    };
                    if mentions {
                        continue;
                    }
                    // a duplicated sheet copies its local names: the original must still be there
                    self.formulas_compared += 1;
                    // file round trips may normalise a leading '='
                    let norm = |s: &String| s.replacen(" = =", " = ", 1);
                    let have = st.get(k).map(norm);
                    if have != Some(norm(v)) {
                        d.push(DiffLine { facet: "name".into(), at: k.trim_start_matches("name@").to_string(), expected: format!("{v} (before)"), actual: have.unwrap_or_else(|| "<absent>".into()) });
                    }
                }
            }
            _ => return Verdict::Ok,
        }
        if d.is_empty() {
            return Verdict::Ok;
        }
        Verdict::Violation(Violation::from_diff(oracle, idx, idx, kind, d, "something that must not move moved (expected = before the event, actual = after)".into()))
    }

    fn exercised(&self) -> u64 {
        self.switches + self.retypes + self.name_events
    }
    fn counters(&self) -> Vec<(String, u64)> {
        let mut v = vec![
            ("language_or_locale_switches_checked".into(), self.switches),
            ("retypes_checked".into(), self.retypes),
            ("sheet_name_and_restart_events_checked".into(), self.name_events),
            ("stored_formulas_and_names_compared".into(), self.formulas_compared),
            ("typed_values_compared".into(), self.values_compared),
            ("skipped_unevaluated_state".into(), self.skipped_stale),
        ];
        for (k, n) in &self.retype_kinds {
            v.push((format!("retyped_cells_of_kind_{k}"), *n));
        }
        v
    }
}
