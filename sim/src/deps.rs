//! Static dependency analysis over the engine's own parsed formulas (public
//! `Model::parsed_formulas`): which rectangles each formula reads. This is an
//! over-approximation of what evaluation reads; it is used to *classify*
//! violations (known-finding tags) and to decide eligibility in the structural
//! oracles, never to compute a value.

use ironcalc_base::expressions::parser::Node;
use ironcalc_base::types::Cell;
use ironcalc_base::Model;
use std::collections::HashSet;

#[derive(Clone, Copy, Debug, PartialEq, Eq, Hash)]
pub struct Rect {
    pub sheet: u32,
    pub r0: i32,
    pub c0: i32,
    pub r1: i32,
    pub c1: i32,
}

impl Rect {
    pub fn cell(sheet: u32, r: i32, c: i32) -> Rect {
        Rect { sheet, r0: r, c0: c, r1: r, c1: c }
    }
    pub fn norm(self) -> Rect {
        Rect {
            sheet: self.sheet,
            r0: self.r0.min(self.r1),
            c0: self.c0.min(self.c1),
            r1: self.r0.max(self.r1),
            c1: self.c0.max(self.c1),
        }
    }
    pub fn intersects(&self, o: &Rect) -> bool {
        self.sheet == o.sheet && self.r0 <= o.r1 && o.r0 <= self.r1 && self.c0 <= o.c1 && o.c0 <= self.c1
    }
    pub fn contains(&self, sheet: u32, r: i32, c: i32) -> bool {
        self.sheet == sheet && self.r0 <= r && r <= self.r1 && self.c0 <= c && c <= self.c1
    }
}

#[derive(Clone, Debug)]
pub struct Unit {
    pub sheet: u32,
    pub row: i32,
    pub col: i32,
    /// anchor plus the block it fills (CSE declared block / current spill)
    pub block: Rect,
    pub is_array: bool,
    pub is_dynamic: bool,
    pub reads: Vec<Rect>,
    /// reads something the analysis cannot resolve (defined name, lambda,
    /// table, parse error, nonexistent sheet)
    pub opaque: bool,
}

pub fn collect_reads(node: &Node, sheet: u32, row: i32, col: i32, names: &dyn Fn(&str) -> Option<u32>, out: &mut Vec<Rect>, opaque: &mut bool) {
    use Node::*;
    match node {
        BooleanKind(_) | NumberKind(_) | StringKind(_) | ErrorKind(_) | EmptyArgKind | ArrayKind(_) => {}
        ReferenceKind { sheet_index, absolute_row, absolute_column, row: r, column: c, .. } => {
            let rr = if *absolute_row { *r } else { *r + row };
            let cc = if *absolute_column { *c } else { *c + col };
            out.push(Rect::cell(*sheet_index, rr, cc));
        }
        RangeKind { sheet_index, absolute_row1, absolute_column1, row1, column1, absolute_row2, absolute_column2, row2, column2, .. } => {
            let r0 = if *absolute_row1 { *row1 } else { *row1 + row };
            let c0 = if *absolute_column1 { *column1 } else { *column1 + col };
            let r1 = if *absolute_row2 { *row2 } else { *row2 + row };
            let c1 = if *absolute_column2 { *column2 } else { *column2 + col };
            out.push(Rect { sheet: *sheet_index, r0, c0, r1, c1 }.norm());
        }
        WrongReferenceKind { .. } | WrongRangeKind { .. } | TableNameKind(_) | ParseErrorKind { .. } => {
            *opaque = true;
        }
        DefinedNameKind(d) => {
            // a name that is a plain (absolute) reference or range is resolved; anything else is opaque
            match parse_name_target(&d.2, names) {
                Some(r) => out.push(r),
                None => *opaque = true,
            }
        }
        NamedVariableKind { .. } | LambdaDefKind { .. } => {
            *opaque = true;
        }
        OpRangeKind { left, right }
        | OpConcatenateKind { left, right }
        | OpSumKind { left, right, .. }
        | OpProductKind { left, right, .. }
        | OpPowerKind { left, right }
        | CompareKind { left, right, .. } => {
            collect_reads(left, sheet, row, col, names, out, opaque);
            collect_reads(right, sheet, row, col, names, out, opaque);
        }
        FunctionKind { args, .. } | NamedFunctionKind { args, .. } => {
            for a in args {
                collect_reads(a, sheet, row, col, names, out, opaque);
            }
        }
        LambdaCallKind { lambda, args } => {
            *opaque = true;
            collect_reads(lambda, sheet, row, col, names, out, opaque);
            for a in args {
                collect_reads(a, sheet, row, col, names, out, opaque);
            }
        }
        ImplicitIntersection { child, .. } | SpillRangeOperator { child } => {
            collect_reads(child, sheet, row, col, names, out, opaque)
        }
        UnaryKind { right, .. } => collect_reads(right, sheet, row, col, names, out, opaque),
    }
}

/// `Sheet1!$F$7:$H$9` / `'My Sheet'!$A$1` -> the rectangle
fn parse_name_target(formula: &str, names: &dyn Fn(&str) -> Option<u32>) -> Option<Rect> {
    let f = formula.strip_prefix('=').unwrap_or(formula);
    let (sheet, cells) = f.rsplit_once('!')?;
    let sheet = sheet.trim_matches('\'').replace("''", "'");
    let si = names(&sheet)?;
    let cell = |t: &str| -> Option<(i32, i32)> {
        let t = t.replace('$', "");
        let letters: String = t.chars().take_while(|c| c.is_ascii_alphabetic()).collect();
        let digits = &t[letters.len()..];
        if letters.is_empty() || digits.is_empty() || !digits.chars().all(|c| c.is_ascii_digit()) {
            return None;
        }
        let mut c = 0i32;
        for ch in letters.to_ascii_uppercase().chars() {
            c = c * 26 + (ch as i32 - 'A' as i32 + 1);
        }
        Some((digits.parse().ok()?, c))
    };
    let (a, b) = match cells.split_once(':') {
        Some((a, b)) => (cell(a)?, cell(b)?),
        None => {
            let a = cell(cells)?;
            (a, a)
        }
    };
    Some(Rect { sheet: si, r0: a.0, c0: a.1, r1: b.0, c1: b.1 }.norm())
}

pub fn units(model: &Model) -> Vec<Unit> {
    let mut out = Vec::new();
    let wb = &model.workbook;
    for (si, ws) in wb.worksheets.iter().enumerate() {
        let sheet = si as u32;
        let mut cells: Vec<(i32, i32)> = Vec::new();
        for (r, row) in &ws.sheet_data {
            for c in row.keys() {
                cells.push((*r, *c));
            }
        }
        cells.sort_unstable();
        for (r, c) in cells {
            let cell = match ws.cell(r, c) {
                Some(x) => x,
                None => continue,
            };
            let (f, block, is_array, is_dynamic) = match cell {
                Cell::CellFormula { f, .. } => (*f, Rect::cell(sheet, r, c), false, false),
                Cell::ArrayFormula { f, r: (w, h), kind, .. } => (
                    *f,
                    Rect { sheet, r0: r, c0: c, r1: r + (*h).max(1) - 1, c1: c + (*w).max(1) - 1 },
                    true,
                    matches!(kind, ironcalc_base::types::ArrayKind::Dynamic),
                ),
                _ => continue,
            };
            let mut reads = Vec::new();
            let mut opaque = false;
            match model.parsed_formulas.get(si).and_then(|v| v.get(f as usize)) {
                Some((node, _)) => {
                    let lookup = |name: &str| wb.worksheets.iter().position(|w| w.get_name().eq_ignore_ascii_case(name)).map(|i| i as u32);
                    collect_reads(node, sheet, r, c, &lookup, &mut reads, &mut opaque)
                }
                None => opaque = true,
            }
            out.push(Unit { sheet, row: r, col: c, block, is_array, is_dynamic, reads, opaque });
        }
    }
    out
}

/// depends[i] = indices of the units whose block unit i reads
pub fn edges(units: &[Unit]) -> Vec<Vec<usize>> {
    let mut e = vec![Vec::new(); units.len()];
    for (i, u) in units.iter().enumerate() {
        for (j, v) in units.iter().enumerate() {
            if u.reads.iter().any(|r| r.intersects(&v.block)) {
                e[i].push(j);
            }
        }
    }
    e
}

/// units that lie on a static dependency cycle (including self loops)
pub fn on_cycle(units: &[Unit]) -> HashSet<usize> {
    let e = edges(units);
    let n = units.len();
    let mut res = HashSet::new();
    // n is small: reachability by DFS from each node
    for s in 0..n {
        let mut seen = vec![false; n];
        let mut stack: Vec<usize> = e[s].clone();
        while let Some(x) = stack.pop() {
            if x == s {
                res.insert(s);
                break;
            }
            if seen[x] {
                continue;
            }
            seen[x] = true;
            stack.extend(e[x].iter().copied());
        }
    }
    res
}

/// units that (transitively) depend on any of `seeds` (seeds included)
pub fn downstream(units: &[Unit], seeds: &HashSet<usize>) -> HashSet<usize> {
    let e = edges(units);
    let mut res: HashSet<usize> = seeds.clone();
    loop {
        let mut grew = false;
        for i in 0..units.len() {
            if !res.contains(&i) && e[i].iter().any(|j| res.contains(j)) {
                res.insert(i);
                grew = true;
            }
        }
        if !grew {
            break;
        }
    }
    res
}

/// index of the unit whose block contains the cell, if any
pub fn unit_at(units: &[Unit], sheet: u32, r: i32, c: i32) -> Option<usize> {
    units.iter().position(|u| u.block.contains(sheet, r, c))
}

/// parses the `at` part of a cell diff line: "<sheet>!R<r>C<c>"
pub fn parse_at(at: &str) -> Option<(u32, i32, i32)> {
    let at = at.strip_prefix('~').unwrap_or(at);
    let (s, rc) = at.split_once('!')?;
    let sheet: u32 = s.parse().ok()?;
    let rc = rc.strip_prefix('R')?;
    let (r, c) = rc.split_once('C')?;
    Some((sheet, r.parse().ok()?, c.parse().ok()?))
}


// ---------------------------------------------------------------------------
// the same graph with IF read lazily

/// truth value of an IF condition when it can be told without evaluating a formula:
/// a literal, or a reference to a cell holding a constant (or nothing)
fn static_truth(cond: &Node, model: &Model, host: (u32, i32, i32)) -> Option<bool> {
    match cond {
        Node::BooleanKind(b) => Some(*b),
        Node::NumberKind(n) => Some(*n != 0.0),
        Node::ReferenceKind { sheet_index, absolute_row, absolute_column, row, column, .. } => {
            let r = if *absolute_row { *row } else { *row + host.1 };
            let c = if *absolute_column { *column } else { *column + host.2 };
            match model.workbook.worksheets.get(*sheet_index as usize)?.cell(r, c) {
                None | Some(Cell::EmptyCell { .. }) => Some(false),
                Some(Cell::BooleanCell { v, .. }) => Some(*v),
                Some(Cell::NumberCell { v, .. }) => Some(*v != 0.0),
                _ => None,
            }
        }
        _ => None,
    }
}

fn collect_reads_lazy(node: &Node, model: &Model, host: (u32, i32, i32), names: &dyn Fn(&str) -> Option<u32>, out: &mut Vec<Rect>, opaque: &mut bool) {
    use Node::*;
    match node {
        FunctionKind { kind, args } if format!("{kind:?}") == "If" && (args.len() == 2 || args.len() == 3) => {
            collect_reads_lazy(&args[0], model, host, names, out, opaque);
            match static_truth(&args[0], model, host) {
                Some(true) => collect_reads_lazy(&args[1], model, host, names, out, opaque),
                Some(false) => {
                    if let Some(b) = args.get(2) {
                        collect_reads_lazy(b, model, host, names, out, opaque)
                    }
                }
                None => {
                    for a in &args[1..] {
                        collect_reads_lazy(a, model, host, names, out, opaque);
                    }
                }
            }
        }
        OpRangeKind { left, right } | OpConcatenateKind { left, right } | OpSumKind { left, right, .. } | OpProductKind { left, right, .. } | OpPowerKind { left, right } | CompareKind { left, right, .. } => {
            collect_reads_lazy(left, model, host, names, out, opaque);
            collect_reads_lazy(right, model, host, names, out, opaque);
        }
        FunctionKind { args, .. } | NamedFunctionKind { args, .. } => {
            for a in args {
                collect_reads_lazy(a, model, host, names, out, opaque);
            }
        }
        UnaryKind { right, .. } => collect_reads_lazy(right, model, host, names, out, opaque),
        ImplicitIntersection { child, .. } | SpillRangeOperator { child } => collect_reads_lazy(child, model, host, names, out, opaque),
        other => collect_reads(other, host.0, host.1, host.2, names, out, opaque),
    }
}

/// `units` with the reads of every formula restricted to what a lazy IF evaluates
pub fn units_lazy(model: &Model) -> Vec<Unit> {
    let mut us = units(model);
    let wb = &model.workbook;
    for u in us.iter_mut() {
        let f = match wb.worksheets.get(u.sheet as usize).and_then(|ws| ws.cell(u.row, u.col)) {
            Some(Cell::CellFormula { f, .. }) | Some(Cell::ArrayFormula { f, .. }) => *f,
            _ => continue,
        };
        if let Some((node, _)) = model.parsed_formulas.get(u.sheet as usize).and_then(|v| v.get(f as usize)) {
            let lookup = |name: &str| wb.worksheets.iter().position(|w| w.get_name().eq_ignore_ascii_case(name)).map(|i| i as u32);
            let mut reads = Vec::new();
            let mut opaque = false;
            collect_reads_lazy(node, model, (u.sheet, u.row, u.col), &lookup, &mut reads, &mut opaque);
            u.reads = reads;
            u.opaque = opaque;
        }
    }
    us
}
