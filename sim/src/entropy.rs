//! OS-entropy seam. std's `RandomState` (HashMap iteration order) and the
//! `rand` crate both obtain their keys from the libc symbol `getrandom`; std
//! resolves it weakly, so the definition below — linked into this binary —
//! wins. A simulated run sets a per-thread key first; every byte the engine
//! then "reads from the OS" on that thread is a pure function of that key.
//! Threads without a key (main, supervisor) get real entropy via the syscall.

use std::cell::Cell;

thread_local! {
    static KEY: Cell<Option<u64>> = const { Cell::new(None) };
    static CALLS: Cell<u64> = const { Cell::new(0) };
}

pub fn set_thread_key(key: u64) {
    KEY.with(|k| k.set(Some(key)));
    CALLS.with(|c| c.set(0));
}

pub fn calls() -> u64 {
    CALLS.with(|c| c.get())
}

#[no_mangle]
pub unsafe extern "C" fn getrandom(buf: *mut libc::c_void, len: usize, flags: libc::c_uint) -> isize {
    let key = KEY.try_with(|k| k.get()).ok().flatten();
    match key {
        Some(k) => {
            let n = CALLS.with(|c| {
                let v = c.get();
                c.set(v + 1);
                v
            });
            let mut x = k ^ n.wrapping_mul(0x9E37_79B9_7F4A_7C15);
            let out = buf as *mut u8;
            let mut i = 0;
            while i < len {
                let v = crate::rng::splitmix(&mut x).to_le_bytes();
                let mut j = 0;
                while j < 8 && i < len {
                    *out.add(i) = v[j];
                    i += 1;
                    j += 1;
                }
            }
            len as isize
        }
        None => libc::syscall(libc::SYS_getrandom, buf, len, flags) as isize,
    }
}
