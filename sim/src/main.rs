mod bad;
mod deps;
mod tags;
mod entropy;
mod ev;
mod exec;
mod findings;
mod fixpoint;
mod gen;
mod lines;
mod minimise;
mod monitors;
mod node;
mod oracle;
mod props;
mod rng;
mod run;
mod schedule;
mod snap;
mod stability;
mod structural;
mod world;
mod xlsxfault;

use exec::ThreadResult;
use oracle::Violation;
use rng::{hash_str, mix, Rng};
use run::{Outcome, ReplayFile, RunOpts};
use serde::{Deserialize, Serialize};
use std::collections::{BTreeMap, HashSet};
use std::io::Write;
use std::time::Instant;

pub fn verif_dir() -> String {
    std::env::var("VERIF_DIR").unwrap_or_else(|_| "/verif".to_string())
}

fn work_dir() -> String {
    format!("{}/.work", verif_dir())
}

/// Replays `events` under `init` with the oracle of `prop` on a fresh run thread.
pub fn replay_events(prop: &str, init: &world::Init, events: &[ev::Rec]) -> Option<Outcome> {
    let prop = prop.to_string();
    let init2 = init.clone();
    let events2 = events.to_vec();
    match exec::on_run_thread(init.hash_key, move || {
        let mut oracle = props::oracle_for(&prop);
        run::run_replay(&init2, &events2, oracle.as_mut(), &RunOpts { log: false })
    }) {
        ThreadResult::Done(o) => Some(o),
        _ => None,
    }
}

fn run_seed_of(verif_seed: u64, prop: &str, index: u64) -> u64 {
    mix(verif_seed, hash_str(prop), index)
}

struct GenRun {
    outcome: Outcome,
    init: world::Init,
}

fn generate_run(prop: &str, verif_seed: u64, index: u64, log: bool) -> ThreadResult<GenRun> {
    let run_seed = run_seed_of(verif_seed, prop, index);
    let hash_key = mix(run_seed, 0x4841_5348, 1);
    let prop = prop.to_string();
    exec::on_run_thread(hash_key, move || {
        if index >= props::E_BASE {
            // an enumerated case: nothing is drawn
            let mut oracle = props::oracle_for(&prop);
            let (init, events) = match props::enumerated_case(&prop, index - props::E_BASE, hash_key) {
                Some(c) => c,
                None => {
                    let init = props::plan(&prop, &mut Rng::new(run_seed), hash_key).init;
                    (init, vec![])
                }
            };
            let recs: Vec<ev::Rec> = events.into_iter().map(|(e, f)| ev::Rec { t_ms: 0, ev: e, fault: f, result: String::new() }).collect();
            let outcome = run::run_replay(&init, &recs, oracle.as_mut(), &RunOpts { log });
            return GenRun { outcome, init };
        }
        let mut rng = Rng::new(run_seed);
        let plan = props::plan(&prop, &mut rng, hash_key);
        let mut oracle = props::oracle_for(&prop);
        let special = props::special_for(&prop);
        let outcome = run::run_generated(&plan, &mut rng, oracle.as_mut(), special, &RunOpts { log });
        GenRun { outcome, init: plan.init }
    })
}

#[derive(Serialize, Deserialize, Default, Clone)]
struct ViolationReport {
    run_index: u64,
    replay: String,
    line: String,
    known: Option<String>,
    oracle: String,
    culprit_kind: String,
    facets: Vec<String>,
    detail: String,
}

#[derive(Serialize, Deserialize, Default)]
struct WorkerOut {
    runs: u64,
    nontrivial: u64,
    events: u64,
    sim_ms: u64,
    exercised: u64,
    counters: BTreeMap<String, u64>,
    stats: BTreeMap<String, u64>,
    fault_labels: BTreeMap<String, u64>,
    fault_labels_rejected: BTreeMap<String, u64>,
    abandoned: BTreeMap<String, u64>,
    panics_total: u64,
    panics: Vec<String>,
    violations: Vec<ViolationReport>,
    known_hits: BTreeMap<String, (u64, String)>,
    samples: Vec<serde_json::Value>,
    harness_errors: Vec<String>,
    wall_s: f64,
    states_capped: bool,
    log_hashes: Vec<(u64, u64)>,
    hangs: Vec<u64>,
}

fn add_stats(m: &mut BTreeMap<String, u64>, s: &world::FaultCounters) {
    if let Ok(serde_json::Value::Object(o)) = serde_json::to_value(s) {
        for (k, v) in o {
            *m.entry(k).or_insert(0) += v.as_u64().unwrap_or(0);
        }
    }
}

fn write_u64s(path: &str, xs: &HashSet<u64>) {
    if let Ok(mut f) = std::fs::File::create(path) {
        let mut buf = Vec::with_capacity(xs.len() * 8);
        for x in xs {
            buf.extend_from_slice(&x.to_le_bytes());
        }
        let _ = f.write_all(&buf);
    }
}

fn read_u64s(path: &str, into: &mut HashSet<u64>) {
    if let Ok(b) = std::fs::read(path) {
        for ch in b.chunks_exact(8) {
            let mut a = [0u8; 8];
            a.copy_from_slice(ch);
            into.insert(u64::from_le_bytes(a));
        }
    }
}

fn write_replay(prop: &str, tier: &str, verif_seed: u64, index: u64, init: &world::Init, events: &[ev::Rec], v: &Violation, from: usize) -> String {
    let dir = format!("{}/replays", verif_dir());
    let _ = std::fs::create_dir_all(&dir);
    let path = format!("{dir}/{prop}-{verif_seed}-{index}.json");
    let rf = ReplayFile {
        format: 1,
        property: prop.to_string(),
        tier: tier.to_string(),
        verif_seed,
        run_index: index,
        run_seed: run_seed_of(verif_seed, prop, index),
        config: init.clone(),
        events: events.to_vec(),
        violation: v.clone(),
        minimised_from: from,
    };
    let _ = std::fs::write(&path, serde_json::to_string_pretty(&rf).unwrap_or_default());
    path
}

fn sample_of(index: u64, init: &world::Init, o: &Outcome) -> serde_json::Value {
    serde_json::json!({
        "run_index": index,
        "config": init,
        "events": o.trace.iter().map(|r| serde_json::json!({"t_ms": r.t_ms, "ev": r.ev, "fault": r.fault, "result": r.result})).collect::<Vec<_>>(),
        "oracle_comparisons": o.exercised,
    })
}

fn worker(args: &[String]) -> i32 {
    // worker <prop> <tier> <seed> <w> <W> <n> <outdir> [log]
    let prop = &args[0];
    let tier = &args[1];
    let verif_seed: u64 = args[2].parse().unwrap_or(1);
    let w: u64 = args[3].parse().unwrap_or(0);
    let nw: u64 = args[4].parse().unwrap_or(1);
    let n: u64 = args[5].parse().unwrap_or(0);
    let outdir = &args[6];
    let log = args.get(7).map(|s| s == "log").unwrap_or(false);
    let t0 = Instant::now();
    exec::warm_up();
    let known = match findings::Findings::load() {
        Ok(k) => k,
        Err(e) => {
            eprintln!("harness error: {e}");
            return 2;
        }
    };
    // silence the default panic hook: panics are caught and recorded
    world::install_panic_hook();
    let mut out = WorkerOut::default();
    let mut cases: HashSet<u64> = HashSet::new();
    let mut states: HashSet<u64> = HashSet::new();
    let mut unmatched_classes: HashSet<(String, String, Vec<String>)> = HashSet::new();
    let cur_path = format!("{outdir}/w{w}.cur");
    // seeded runs first, then this worker's share of the enumerated cases
    let mut todo: Vec<u64> = (0..n).filter(|i| i % nw == w).collect();
    todo.extend(props::enumerated_indices(prop, tier).into_iter().enumerate().filter(|(j, _)| *j as u64 % nw == w).map(|(_, i)| i));
    let mut pos = 0usize;
    let state_cap = 1_500_000usize;
    let max_violations: usize = std::env::var("VERIF_MAX_VIOLATIONS").ok().and_then(|s| s.parse().ok()).unwrap_or(6);
    while pos < todo.len() {
        let index = todo[pos];
        pos += 1;
        let _ = std::fs::write(&cur_path, index.to_string());
        let g = match generate_run(prop, verif_seed, index, log) {
            ThreadResult::Done(g) => g,
            ThreadResult::Panicked(p) => {
                out.harness_errors.push(format!("run {index}: harness panic: {p}"));
                continue;
            }
            ThreadResult::Hung => {
                // The watchdog reads the real clock (the only place anything does), and the
                // machine is loaded: nothing is concluded here. The supervisor re-runs the
                // index alone with a long budget. The stuck thread is left behind.
                out.hangs.push(index);
                if out.hangs.len() >= 3 {
                    break;
                }
                continue;
            }
        };
        let o = g.outcome;
        out.runs += 1;
        out.events += o.trace.len() as u64;
        out.sim_ms += o.sim_ms;
        out.exercised += o.exercised;
        for (k, v) in &o.counters {
            *out.counters.entry(k.clone()).or_insert(0) += v;
        }
        add_stats(&mut out.stats, &o.stats);
        for r in &o.trace {
            if let Some(l) = &r.fault {
                *out.fault_labels.entry(l.clone()).or_insert(0) += 1;
                if r.result.starts_with("err") {
                    *out.fault_labels_rejected.entry(l.clone()).or_insert(0) += 1;
                }
            }
        }
        if let Some(e) = &o.harness_error {
            out.harness_errors.push(format!("run {index}: {e}"));
        }
        if let Some(a) = &o.abandoned {
            let key: String = a.chars().take(90).collect();
            *out.abandoned.entry(key).or_insert(0) += 1;
        }
        out.panics_total += o.panics.len() as u64;
        for p in &o.panics {
            if out.panics.len() < 20 {
                out.panics.push(format!("run {index}: {p}"));
            }
        }
        if log {
            out.log_hashes.push((index, o.log_hash));
        }
        if o.exercised > 0 {
            out.nontrivial += 1;
            cases.insert(mix(o.kinds_hash, o.final_hash, 7));
            if out.samples.len() < 3 && o.violation.is_none() && w == 0 {
                out.samples.push(sample_of(index, &g.init, &o));
            }
        }
        if states.len() < state_cap {
            for h in &o.state_hashes {
                states.insert(*h);
            }
        } else {
            out.states_capped = true;
        }
        if let Some(v) = &o.violation {
            // known finding? try the raw violation first, then the minimised one
            let mut matched = known.matches(prop, v, false).map(|f| (f.id.clone(), f.what.clone()));
            let mut reported = false;
            if matched.is_none() {
                if unmatched_classes.contains(&v.class()) {
                    // same class already minimised and reported by this worker
                    reported = true;
                } else {
                    let m = minimise::minimise(prop, &g.init, &o.trace, v);
                    matched = known.matches(prop, &m.violation, true).map(|f| (f.id.clone(), f.what.clone()));
                    if matched.is_none() {
                        unmatched_classes.insert(v.class());
                        unmatched_classes.insert(m.violation.class());
                        let path = write_replay(prop, tier, verif_seed, index, &m.init, &m.events, &m.violation, o.trace.len());
                        out.violations.push(ViolationReport {
                            run_index: index,
                            replay: path.clone(),
                            line: format!("VIOLATION property={prop} replay={path}"),
                            known: None,
                            oracle: m.violation.oracle.clone(),
                            culprit_kind: m.violation.culprit_kind.clone(),
                            facets: m.violation.facets.clone(),
                            detail: m.violation.detail.clone(),
                        });
                        reported = true;
                    }
                }
            }
            if let Some((id, what)) = matched {
                if std::env::var("VERIF_SAVE_WITNESSES").is_ok() && !out.known_hits.contains_key(&id) {
                    let wpath = format!("{}/witnesses/{}.json", verif_dir(), id);
                    if !std::path::Path::new(&wpath).exists() {
                        let m = minimise::minimise(prop, &g.init, &o.trace, v);
                        let tmp = write_replay(prop, tier, verif_seed, index, &m.init, &m.events, &m.violation, o.trace.len());
                        let _ = std::fs::create_dir_all(format!("{}/witnesses", verif_dir()));
                        let _ = std::fs::rename(&tmp, &wpath);
                    }
                }
                let e = out.known_hits.entry(id).or_insert((0, what));
                e.0 += 1;
            } else if !reported {
                out.harness_errors.push(format!("run {index}: violation neither matched nor reported"));
            }
            if out.violations.len() >= max_violations {
                break;
            }
        }
    }
    out.wall_s = t0.elapsed().as_secs_f64();
    write_u64s(&format!("{outdir}/w{w}.cases"), &cases);
    write_u64s(&format!("{outdir}/w{w}.states"), &states);
    let _ = std::fs::write(format!("{outdir}/w{w}.json"), serde_json::to_string(&out).unwrap_or_default());
    let _ = std::fs::remove_file(&cur_path);
    0
}

fn check(args: &[String]) -> i32 {
    let prop = args.first().cloned().unwrap_or_default();
    let tier = args
        .get(1)
        .cloned()
        .or_else(|| std::env::var("VERIF_TIER").ok())
        .unwrap_or_else(|| "quick".to_string());
    let tier = if tier == "thorough" { "thorough".to_string() } else { "quick".to_string() };
    if !props::CLAIMED.contains(&prop.as_str()) {
        eprintln!("harness error: property {prop} has no check");
        return 2;
    }
    let verif_seed: u64 = std::env::var("VERIF_SEED").ok().and_then(|s| s.parse().ok()).unwrap_or(1);
    let n = props::runs_for(&prop, &tier);
    let nw: u64 = std::env::var("VERIF_WORKERS").ok().and_then(|s| s.parse().ok()).unwrap_or(16).max(1);
    let n_enum = props::enumerated_indices(&prop, &tier).len();
    if n_enum > 0 {
        println!("icsim check property={prop} tier={tier} VERIF_SEED={verif_seed} runs={n} enumerated_cases={n_enum} workers={nw}");
    } else {
        println!("icsim check property={prop} tier={tier} VERIF_SEED={verif_seed} runs={n} workers={nw}");
    }
    let t0 = Instant::now();
    let outdir = format!("{}/{prop}-{tier}-{}", work_dir(), std::process::id());
    let _ = std::fs::remove_dir_all(&outdir);
    if std::fs::create_dir_all(&outdir).is_err() {
        eprintln!("harness error: cannot create {outdir}");
        return 2;
    }
    let exe = std::env::current_exe().unwrap_or_else(|_| "icsim".into());
    let mut children = Vec::new();
    for w in 0..nw {
        let c = std::process::Command::new(&exe)
            .args(["worker", &prop, &tier, &verif_seed.to_string(), &w.to_string(), &nw.to_string(), &n.to_string(), &outdir])
            // the engine prints diagnostics of its own (importer warnings); workers report through files
            .stdout(std::process::Stdio::null())
            .stderr(std::process::Stdio::null())
            .spawn();
        match c {
            Ok(c) => children.push((w, c)),
            Err(e) => {
                eprintln!("harness error: cannot spawn worker: {e}");
                return 2;
            }
        }
    }
    let mut total = WorkerOut::default();
    let mut cases: HashSet<u64> = HashSet::new();
    let mut states: HashSet<u64> = HashSet::new();
    let mut aborts: Vec<String> = Vec::new();
    let mut harness_fail = false;
    for (w, mut c) in children {
        let status = c.wait();
        let ok = matches!(&status, Ok(s) if s.success());
        let res: Option<WorkerOut> = std::fs::read_to_string(format!("{outdir}/w{w}.json"))
            .ok()
            .and_then(|t| serde_json::from_str(&t).ok());
        match (ok, res) {
            (true, Some(o)) => {
                total.runs += o.runs;
                total.nontrivial += o.nontrivial;
                total.events += o.events;
                total.sim_ms += o.sim_ms;
                total.exercised += o.exercised;
                for (k, v) in o.counters {
                    *total.counters.entry(k).or_insert(0) += v;
                }
                for (k, v) in o.stats {
                    *total.stats.entry(k).or_insert(0) += v;
                }
                for (k, v) in o.fault_labels {
                    *total.fault_labels.entry(k).or_insert(0) += v;
                }
                for (k, v) in o.fault_labels_rejected {
                    *total.fault_labels_rejected.entry(k).or_insert(0) += v;
                }
                for (k, v) in o.abandoned {
                    *total.abandoned.entry(k).or_insert(0) += v;
                }
                total.panics_total += o.panics_total;
                total.panics.extend(o.panics);
                total.violations.extend(o.violations);
                for (k, (n, what)) in o.known_hits {
                    let e = total.known_hits.entry(k).or_insert((0, what));
                    e.0 += n;
                }
                total.samples.extend(o.samples);
                total.harness_errors.extend(o.harness_errors);
                total.states_capped |= o.states_capped;
                for h in o.hangs {
                    aborts.push(format!("hang run_index={h}"));
                }
                read_u64s(&format!("{outdir}/w{w}.cases"), &mut cases);
                read_u64s(&format!("{outdir}/w{w}.states"), &mut states);
            }
            _ => {
                // the worker died: attribute to the run index it was executing
                match std::fs::read_to_string(format!("{outdir}/w{w}.cur")) {
                    Ok(idx) => aborts.push(format!("abort run_index={idx} status={status:?}")),
                    Err(_) => {
                        eprintln!("harness error: worker {w} failed without a current run ({status:?})");
                        harness_fail = true;
                    }
                }
            }
        }
    }
    let wall = t0.elapsed().as_secs_f64();
    let _ = std::fs::remove_dir_all(&outdir);
    if harness_fail {
        return 2;
    }
    // verify every reported replay in a fresh process
    let mut confirmed: Vec<ViolationReport> = Vec::new();
    let mut seen_classes: HashSet<(String, String, Vec<String>)> = HashSet::new();
    total.violations.sort_by_key(|v| v.run_index);
    for v in &total.violations {
        let class = (v.oracle.clone(), v.culprit_kind.clone(), v.facets.clone());
        if !seen_classes.insert(class) {
            let _ = std::fs::remove_file(&v.replay);
            continue;
        }
        let st = std::process::Command::new(&exe)
            .args(["replay", &v.replay, "--quiet"])
            .stdout(std::process::Stdio::null())
            .status();
        match st {
            Ok(s) if s.code() == Some(1) => confirmed.push(v.clone()),
            other => {
                eprintln!("harness error: replay of {} did not reproduce ({other:?})", v.replay);
                return 2;
            }
        }
    }
    let mut slow_runs_ok = 0u64;
    for a in &aborts {
        // no event list survives an abort/hang: the replay regenerates the run from its seed
        let idx = a.split("run_index=").nth(1).and_then(|s| s.split_whitespace().next()).unwrap_or("0").to_string();
        let dir = format!("{}/replays", verif_dir());
        let _ = std::fs::create_dir_all(&dir);
        let path = format!("{dir}/{prop}-{verif_seed}-{idx}.regen.json");
        let _ = std::fs::write(
            &path,
            serde_json::json!({"format": 1, "regenerate": true, "property": prop, "verif_seed": verif_seed, "run_index": idx.parse::<u64>().unwrap_or(0), "what": a}).to_string(),
        );
        // decide it on an idle machine, alone, with a budget four orders of magnitude above
        // what a run costs
        let st = std::process::Command::new(&exe)
            .args(["replay", &path, "--quiet"])
            .env("VERIF_WATCHDOG_S", "300")
            .stdout(std::process::Stdio::null())
            .stderr(std::process::Stdio::null())
            .status();
        let reproduced = match &st {
            Ok(s) if s.code() == Some(0) => false,
            Ok(s) if s.code() == Some(1) || s.code().is_none() => true,
            other => {
                eprintln!("harness error: re-run of {path} failed ({other:?})");
                return 2;
            }
        };
        if !reproduced {
            if a.starts_with("abort") {
                eprintln!("harness error: worker died in run {idx} ({a}) but the run completes when repeated alone");
                return 2;
            }
            slow_runs_ok += 1;
            let _ = std::fs::remove_file(&path);
            continue;
        }
        confirmed.push(ViolationReport {
            run_index: idx.parse().unwrap_or(0),
            replay: path.clone(),
            line: format!("VIOLATION property={prop} replay={path}"),
            known: None,
            oracle: "abort-or-hang".into(),
            culprit_kind: "?".into(),
            facets: vec![],
            detail: a.clone(),
        });
    }
    for (id, (n, what)) in &total.known_hits {
        println!("KNOWN-FINDING: property={prop} {id} {what} (seen in {n} runs)");
    }
    for v in &confirmed {
        println!("{}", v.line);
        println!("  oracle={} culprit={} facets={:?}\n  {}", v.oracle, v.culprit_kind, v.facets, v.detail);
    }
    for e in total.harness_errors.iter().take(5) {
        eprintln!("harness error: {e}");
    }
    // evidence
    let distinct = cases.len() as u64;
    let ev = serde_json::json!({
        "property_id": prop,
        "tier": tier,
        "seed": verif_seed,
        "level": props::level_of(&prop),
        "wall_s": wall,
        "violations": confirmed.len(),
        "coverage": {
            "evaluations": total.runs,
            "distinct_nontrivial": distinct,
            "rule": props::rule_for(&prop),
            "samples": total.samples.iter().take(3).collect::<Vec<_>>(),
            "nontrivial_runs": total.nontrivial,
            "seeds": {"verif_seed": verif_seed, "first_run_index": 0, "last_run_index": n.saturating_sub(1)},
            "runs_per_hour": if wall > 0.0 { (total.runs as f64 / wall * 3600.0) as u64 } else { 0 },
            "simulated_ms_total": total.sim_ms,
            "events_total": total.events,
            "fault_counts": total.stats,
            "injected_fault_classes": total.fault_labels,
            "injected_fault_classes_rejected": total.fault_labels_rejected,
            "oracle_comparisons": total.exercised,
            "oracle_checks_and_probes": total.counters,
            "distinct_states": states.len(),
            "distinct_states_capped": total.states_capped,
            "runs_left_hypothesis": total.abandoned,
            "panics_observed": {"total": total.panics_total, "first": total.panics.iter().take(10).collect::<Vec<_>>()},
            "known_findings_hit": total.known_hits.iter().map(|(k, v)| (k.clone(), v.0)).collect::<BTreeMap<_, _>>(),
            "components": {
                "real": ["ironcalc_base::UserModel/Model (evaluator, parser, printer, actions, history, diff queue, bitcode)", "ironcalc xlsx import/export (zip, roxmltree)"],
                "stub": ["network between sessions: in-process FIFO of byte batches", "byte store / xlsx disk: in-memory", "clock: mock_time", "entropy: interposed getrandom", "user: workload generator"],
            },
            "workers": nw,
            "enumerated_cases": n_enum,
            "watchdog_trips_decided_by_rerun_alone_and_clean": slow_runs_ok,
        },
        "assumptions": [
            "sampling, not enumeration: bounds of DESIGN §2.2 (<=4 sheets, 12x8 window plus grid edges, <=40 events)",
            "the observable snapshot (DESIGN §3) is what 'observable' means",
        ],
    });
    let evdir = format!("{}/evidence", verif_dir());
    let _ = std::fs::create_dir_all(&evdir);
    if std::fs::write(format!("{evdir}/{prop}.json"), serde_json::to_string_pretty(&ev).unwrap_or_default()).is_err() {
        eprintln!("harness error: cannot write evidence");
        return 2;
    }
    println!(
        "runs={} nontrivial={} distinct_nontrivial={} events={} comparisons={} wall={:.1}s violations={}",
        total.runs,
        total.nontrivial,
        distinct,
        total.events,
        total.exercised,
        wall,
        confirmed.len()
    );
    if !total.harness_errors.is_empty() {
        return 2;
    }
    if confirmed.is_empty() {
        0
    } else {
        1
    }
}

fn replay(args: &[String]) -> i32 {
    let path = match args.first() {
        Some(p) => p.clone(),
        None => {
            eprintln!("usage: icsim replay <file>");
            return 2;
        }
    };
    let quiet = args.iter().any(|a| a == "--quiet");
    let text = match std::fs::read_to_string(&path) {
        Ok(t) => t,
        Err(e) => {
            eprintln!("harness error: {path}: {e}");
            return 2;
        }
    };
    exec::warm_up();
    world::install_panic_hook();
    let js: serde_json::Value = match serde_json::from_str(&text) {
        Ok(j) => j,
        Err(e) => {
            eprintln!("harness error: {path}: {e}");
            return 2;
        }
    };
    if js.get("regenerate").and_then(|v| v.as_bool()).unwrap_or(false) {
        let prop = js["property"].as_str().unwrap_or("").to_string();
        let seed = js["verif_seed"].as_u64().unwrap_or(1);
        let idx = js["run_index"].as_u64().unwrap_or(0);
        match generate_run(&prop, seed, idx, false) {
            ThreadResult::Done(g) => {
                if let Ok(out) = std::env::var("VERIF_DUMP_TRACE") {
                    // debugging aid: the regenerated run as an ordinary replay file
                    let rf = ReplayFile {
                        format: 1,
                        property: prop.clone(),
                        tier: "quick".into(),
                        verif_seed: seed,
                        run_index: idx,
                        run_seed: run_seed_of(seed, &prop, idx),
                        config: g.init.clone(),
                        events: g.outcome.trace.clone(),
                        violation: g.outcome.violation.clone().unwrap_or_else(|| Violation::simple("none", 0, "?", "result", String::new())),
                        minimised_from: g.outcome.trace.len(),
                    };
                    let _ = std::fs::write(&out, serde_json::to_string_pretty(&rf).unwrap_or_default());
                }
                if let Some(v) = g.outcome.violation {
                    println!("VIOLATION property={prop} replay={path}");
                    println!("  {}", v.detail);
                    return 1;
                }
                println!("regenerated run {idx} completed without violation");
                return 0;
            }
            ThreadResult::Hung => {
                println!("VIOLATION property={prop} replay={path}");
                println!("  kind=hang");
                return 1;
            }
            ThreadResult::Panicked(p) => {
                eprintln!("harness error: {p}");
                return 2;
            }
        }
    }
    let rf: ReplayFile = match serde_json::from_value(js) {
        Ok(r) => r,
        Err(e) => {
            eprintln!("harness error: {path}: {e}");
            return 2;
        }
    };
    match replay_events(&rf.property, &rf.config, &rf.events) {
        None => {
            println!("VIOLATION property={} replay={path}", rf.property);
            println!("  kind=hang-or-panic during replay");
            1
        }
        Some(o) => match o.violation {
            Some(v) => {
                let same = v.class() == rf.violation.class();
                println!("VIOLATION property={} replay={path}", rf.property);
                if !quiet {
                    println!("  oracle={} culprit={} facets={:?}", v.oracle, v.culprit_kind, v.facets);
                    println!("  {}", v.detail);
                    for l in &v.diff {
                        println!("    {}@{}: expected {:?} actual {:?}", l.facet, l.at, l.expected, l.actual);
                    }
                    for (i, r) in o.trace.iter().enumerate() {
                        println!("  #{i} {} -> {}", serde_json::to_string(&r.ev).unwrap_or_default(), r.result);
                    }
                    if !same {
                        println!("  note: violation class differs from the recorded one {:?}", rf.violation.class());
                    }
                }
                if same {
                    1
                } else {
                    3
                }
            }
            None => {
                println!("replay of {path}: no violation (abandoned: {:?})", o.abandoned);
                0
            }
        },
    }
}

/// Determinism proof: the per-run event logs (event, result, snapshot hash of
/// every node after every event) must be identical across processes and
/// worker counts.
fn selftest(args: &[String]) -> i32 {
    let n: u64 = args.first().and_then(|s| s.parse().ok()).unwrap_or(2000);
    let verif_seed: u64 = std::env::var("VERIF_SEED").ok().and_then(|s| s.parse().ok()).unwrap_or(1);
    let exe = std::env::current_exe().unwrap_or_else(|_| "icsim".into());
    let mut ok = true;
    for prop in props::CLAIMED {
        let mut logs: Vec<BTreeMap<u64, u64>> = Vec::new();
        for (round, nw) in [(0u32, 1u64), (1, 16), (2, 5)] {
            let outdir = format!("{}/selftest-{prop}-{round}-{}", work_dir(), std::process::id());
            let _ = std::fs::remove_dir_all(&outdir);
            let _ = std::fs::create_dir_all(&outdir);
            let mut children = Vec::new();
            for w in 0..nw {
                if let Ok(c) = std::process::Command::new(&exe)
                    .args(["worker", prop, "quick", &verif_seed.to_string(), &w.to_string(), &nw.to_string(), &n.to_string(), &outdir, "log"])
                    // (seeded runs only: the enumerated cases draw nothing)
                    .env("VERIF_RUNS", n.to_string())
                    .stdout(std::process::Stdio::null())
                    .stderr(std::process::Stdio::null())
                    .env("VERIF_FINDINGS", "/nonexistent")
                    .env("VERIF_MAX_VIOLATIONS", "1000000")
                    .env("VERIF_MIN_BUDGET", "0")
                    .env("VERIF_DIR", format!("{outdir}/v"))
                    .spawn()
                {
                    children.push((w, c));
                }
            }
            let mut m = BTreeMap::new();
            for (w, mut c) in children {
                let _ = c.wait();
                if let Some(o) = std::fs::read_to_string(format!("{outdir}/w{w}.json"))
                    .ok()
                    .and_then(|t| serde_json::from_str::<WorkerOut>(&t).ok())
                {
                    for (i, h) in o.log_hashes {
                        m.insert(i, h);
                    }
                }
            }
            let _ = std::fs::remove_dir_all(&outdir);
            logs.push(m);
        }
        let base = &logs[0];
        if base.len() as u64 != n {
            eprintln!("selftest {prop}: expected {n} logs, got {}", base.len());
            ok = false;
        }
        for (k, l) in logs.iter().enumerate().skip(1) {
            let mut bad = 0;
            for (i, h) in base {
                if l.get(i) != Some(h) {
                    if bad < 5 {
                        eprintln!("selftest {prop}: run {i} differs between round 0 and round {k}");
                    }
                    bad += 1;
                }
            }
            if bad > 0 || l.len() != base.len() {
                ok = false;
                eprintln!("selftest {prop}: {bad} of {} runs differ (round {k})", base.len());
            }
        }
        println!("selftest {prop}: {} runs x 3 process layouts (1, 16, 5 workers) compared", base.len());
    }
    if ok {
        println!("selftest: deterministic");
        0
    } else {
        eprintln!("harness error: determinism self-test failed");
        2
    }
}

/// Debug aid: replays violation files against the current tree and says which known finding (if any) each matches.
fn triage(args: &[String]) -> i32 {
    exec::warm_up();
    world::install_panic_hook();
    let known = match findings::Findings::load() {
        Ok(k) => k,
        Err(e) => {
            eprintln!("{e}");
            return 2;
        }
    };
    for path in args {
        let rf: ReplayFile = match std::fs::read_to_string(path).ok().and_then(|t| serde_json::from_str(&t).ok()) {
            Some(r) => r,
            None => {
                println!("{path}: unreadable");
                continue;
            }
        };
        match replay_events(&rf.property, &rf.config, &rf.events) {
            None => println!("{path}: hang/panic"),
            Some(o) => match o.violation {
                None => println!("{path}: no violation now"),
                Some(v) => match known.matches(&rf.property, &v, true) {
                    Some(f) => println!("{path}: {}", f.id),
                    None => println!("{path}: UNMATCHED {} {} {:?} tags={:?}", v.oracle, v.culprit_kind, v.facets, v.tags.iter().filter(|t| !t.starts_with("has:")).collect::<Vec<_>>()),
                },
            },
        }
    }
    0
}

/// Debug aid: prints the snapshot entries matching a filter after every event of a replay file.
fn dump(args: &[String]) -> i32 {
    let path = args.first().cloned().unwrap_or_default();
    let filt = args.get(1).cloned().unwrap_or_default();
    let rf: ReplayFile = match std::fs::read_to_string(&path).ok().and_then(|t| serde_json::from_str(&t).ok()) {
        Some(r) => r,
        None => return 2,
    };
    exec::warm_up();
    let r = exec::on_run_thread(rf.config.hash_key, move || {
        let mut w = match world::World::new(&rf.config) {
            Ok(w) => w,
            Err(e) => {
                println!("init: {e}");
                return;
            }
        };
        for (i, r) in rf.events.iter().enumerate() {
            let res = w.step(&r.ev);
            println!("#{i} {} -> {:?} {:?}", serde_json::to_string(&r.ev).unwrap_or_default(), res.result, res.panic);
            for (k, v) in snap::snapshot(&w.primary) {
                if k.contains(&filt) {
                    println!("     {k} = {v}");
                }
            }
        }
    });
    match r {
        ThreadResult::Done(()) => 0,
        _ => 2,
    }
}

fn main() {
    let args: Vec<String> = std::env::args().skip(1).collect();
    let code = match args.first().map(|s| s.as_str()) {
        Some("check") => check(&args[1..]),
        Some("worker") => worker(&args[1..]),
        Some("replay") => replay(&args[1..]),
        Some("selftest") => selftest(&args[1..]),
        Some("dump") => dump(&args[1..]),
        Some("triage") => triage(&args[1..]),
        _ => {
            eprintln!("usage: icsim check <prop> [quick|thorough] | replay <file> | selftest [n]");
            2
        }
    };
    std::process::exit(code);
}
