//! C07: the values of a workbook do not depend on the schedule that built it.
//!
//! At probe points the inputs of the primary node (sheets, defined names, the content of
//! every cell that is not a spill child) are typed into fresh `Model`s under other
//! schedules: a seeded permutation of the cells, evaluation after every input / only at
//! the end / at seeded points, a byte-level reload in the middle, another hash seed (every
//! scratch model lives in the same thread but its maps are created later, so they iterate
//! in another order). Every variant, after a final evaluation, must show the typed values
//! and array structure the primary shows; a second evaluation must change nothing.

use crate::ev::Ev;
use crate::oracle::{Abandon, Oracle, Verdict, Violation};
use crate::rng::Rng;
use crate::snap::{cell_kind, typed_value, DiffLine};
use crate::world::{StepRes, World};
use ironcalc_base::types::{ArrayKind, Cell};
use ironcalc_base::Model;
use std::collections::BTreeMap;

type Pos = (u32, i32, i32);

#[derive(Clone)]
struct Input {
    pos: Pos,
    text: String,
    /// declared block of a CSE array formula
    cse: Option<(i32, i32)>,
    is_formula: bool,
}

struct Spec {
    locale: String,
    tz: String,
    lang: &'static str,
    sheets: Vec<String>,
    names: Vec<(String, Option<u32>, String)>,
    inputs: Vec<Input>,
}

fn spec_of(model: &Model, lang: &'static str) -> Result<Spec, String> {
    let wb = &model.workbook;
    let mut inputs = Vec::new();
    for (si, ws) in wb.worksheets.iter().enumerate() {
        let mut cells: Vec<(i32, i32)> = ws.sheet_data.iter().flat_map(|(r, row)| row.keys().map(move |c| (*r, *c))).collect();
        cells.sort_unstable();
        for (r, c) in cells {
            let cell = match ws.cell(r, c) {
                Some(x) => x,
                None => continue,
            };
            let (cse, is_formula) = match cell {
                Cell::SpillCell { .. } | Cell::EmptyCell { .. } => continue,
                Cell::ArrayFormula { kind: ArrayKind::Cse, r: dims, .. } => (Some(*dims), true),
                Cell::ArrayFormula { .. } | Cell::CellFormula { .. } => (None, true),
                _ => (None, false),
            };
            let text = model.get_localized_cell_content(si as u32, r, c)?;
            inputs.push(Input { pos: (si as u32, r, c), text, cse, is_formula });
        }
    }
    Ok(Spec {
        locale: wb.settings.locale.clone(),
        tz: wb.settings.tz.clone(),
        lang,
        sheets: wb.worksheets.iter().map(|w| w.get_name()).collect(),
        names: model.get_defined_name_list(),
        inputs,
    })
}

/// what is compared: position -> "kind | typed value" for every cell that holds something
fn values_of(model: &Model) -> BTreeMap<String, String> {
    let mut m = BTreeMap::new();
    for (si, ws) in model.workbook.worksheets.iter().enumerate() {
        for (r, row) in &ws.sheet_data {
            for (c, cell) in row {
                let kind = match cell {
                    Cell::EmptyCell { .. } => continue,
                    Cell::ArrayFormula { kind: ArrayKind::Dynamic, r: (1, 1), .. } | Cell::CellFormula { .. } => "formula".to_string(),
                    other => cell_kind(other),
                };
                m.insert(format!("{si}!R{r}C{c}"), format!("{kind} | {}", typed_value(cell, &model.workbook.shared_strings)));
            }
        }
    }
    m
}

struct Variant {
    label: String,
    values: Result<BTreeMap<String, String>, String>,
    /// differences between the first and a second evaluation
    second_eval: Vec<DiffLine>,
}

fn build(spec: &Spec, order: &[usize], eval_after: &dyn Fn(usize) -> bool, reload_at: Option<usize>) -> Result<(BTreeMap<String, String>, Vec<DiffLine>), String> {
    let locale = crate::node::static_locale(&spec.locale).ok_or("harness: locale")?;
    let tz = crate::node::static_tz(&spec.tz).ok_or("harness: tz")?;
    let mut m = Model::new_empty("model", locale, tz, spec.lang)?;
    // the fixed prefix: sheets and names exist before cells mention them
    for (i, name) in spec.sheets.iter().enumerate() {
        if i > 0 {
            m.new_sheet();
        }
        let _ = name;
    }
    for (i, name) in spec.sheets.iter().enumerate() {
        // two passes: a name may be taken by a default-named sheet further on
        let tmp = format!("tmp-{i}-\u{1}");
        let _ = m.rename_sheet_by_index(i as u32, &tmp);
        let _ = name;
    }
    for (i, name) in spec.sheets.iter().enumerate() {
        m.rename_sheet_by_index(i as u32, name).map_err(|e| format!("harness: cannot name sheet {i} {name:?}: {e}"))?;
    }
    for (name, scope, formula) in &spec.names {
        m.new_defined_name(name, *scope, formula).map_err(|e| format!("retype: defined name {name}: {e}"))?;
    }
    for (k, i) in order.iter().enumerate() {
        let inp = &spec.inputs[*i];
        let (s, r, c) = inp.pos;
        let res = match inp.cse {
            Some((w, h)) => m.set_user_array_formula(s, r, c, w, h, &inp.text),
            None => m.set_user_input(s, r, c, inp.text.clone()),
        };
        res.map_err(|e| format!("retype: {s}!R{r}C{c} {:?}: {e}", inp.text))?;
        if eval_after(k) {
            m.evaluate();
        }
        if reload_at == Some(k) {
            m.evaluate();
            let bytes = m.to_bytes();
            m = Model::from_bytes(&bytes, spec.lang)?;
        }
    }
    m.evaluate();
    let first = values_of(&m);
    m.evaluate();
    let second = values_of(&m);
    let mut d = Vec::new();
    for (k, v) in &first {
        let w = second.get(k);
        if w != Some(v) {
            d.push(DiffLine { facet: "cell.value".into(), at: k.clone(), expected: format!("{v} (first evaluation)"), actual: w.cloned().unwrap_or_else(|| "<absent>".into()) });
        }
    }
    for (k, w) in &second {
        if !first.contains_key(k) {
            d.push(DiffLine { facet: "cell.value".into(), at: k.clone(), expected: "<absent> (first evaluation)".into(), actual: w.clone() });
        }
    }
    Ok((first, d))
}

fn variants(spec: &Spec, seed: u64) -> Vec<Variant> {
    let n = spec.inputs.len();
    let mut rng = Rng::new(seed);
    let ident: Vec<usize> = (0..n).collect();
    let rev: Vec<usize> = (0..n).rev().collect();
    let mut perm = ident.clone();
    rng.shuffle(&mut perm);
    let mut perm2 = ident.clone();
    rng.shuffle(&mut perm2);
    let marks: Vec<bool> = (0..n).map(|_| rng.chance(0.3)).collect();
    let reload = if n > 0 { Some(rng.below(n as u64) as usize) } else { None };
    let mut out = Vec::new();
    let mut push = |label: &str, r: Result<(BTreeMap<String, String>, Vec<DiffLine>), String>| match r {
        Ok((v, d)) => out.push(Variant { label: label.to_string(), values: Ok(v), second_eval: d }),
        Err(e) => out.push(Variant { label: label.to_string(), values: Err(e), second_eval: vec![] }),
    };
    push("sorted order, one evaluation at the end", build(spec, &ident, &|_| false, None));
    push("reverse order, evaluation after every input", build(spec, &rev, &|_| true, None));
    push("seeded permutation, evaluation at seeded points", build(spec, &perm, &|k| marks.get(k).copied().unwrap_or(false), None));
    push("seeded permutation, one evaluation at the end, reload from bytes in the middle", build(spec, &perm2, &|_| false, reload));
    out
}

pub struct ScheduleOracle {
    probes: u64,
    variants_compared: u64,
    cells_compared: u64,
    retype_not_faithful: u64,
    formulas_in_probes: u64,
    dynamic_in_probes: u64,
}

impl ScheduleOracle {
    pub fn new() -> ScheduleOracle {
        ScheduleOracle { probes: 0, variants_compared: 0, cells_compared: 0, retype_not_faithful: 0, formulas_in_probes: 0, dynamic_in_probes: 0 }
    }

    fn probe(&mut self, w: &World, idx: usize) -> Verdict {
        let model = w.primary.model();
        let spec = match spec_of(model, w.primary.lang) {
            Ok(s) => s,
            Err(e) => return Verdict::Abandon(Abandon(format!("harness: spec: {e}"))),
        };
        if spec.inputs.is_empty() {
            return Verdict::Ok;
        }
        self.probes += 1;
        self.formulas_in_probes += spec.inputs.iter().filter(|i| i.is_formula).count() as u64;
        self.dynamic_in_probes += model
            .workbook
            .worksheets
            .iter()
            .flat_map(|ws| ws.sheet_data.values().flat_map(|r| r.values()))
            .filter(|c| matches!(c, Cell::ArrayFormula { kind: ArrayKind::Dynamic, .. }))
            .count() as u64;
        let live = values_of(model);
        let seed = crate::rng::mix(w.init.hash_key, idx as u64, 0x5c4ed);
        let formula_at: std::collections::BTreeSet<String> = spec.inputs.iter().filter(|i| i.is_formula).map(|i| format!("{}!R{}C{}", i.pos.0, i.pos.1, i.pos.2)).collect();
        let mut diffs: Vec<DiffLine> = Vec::new();
        for v in variants(&spec, seed) {
            let vals = match v.values {
                Ok(x) => x,
                Err(e) => {
                    // typing the shown content back is refused or impossible: C18's subject
                    self.retype_not_faithful += 1;
                    let _ = e;
                    continue;
                }
            };
            // constants must have survived the re-typing, else the variant says nothing
            let constants_differ = live.iter().any(|(k, a)| !formula_at.contains(k) && !a.starts_with("spill") && vals.get(k) != Some(a));
            if constants_differ {
                self.retype_not_faithful += 1;
                continue;
            }
            self.variants_compared += 1;
            let keys: std::collections::BTreeSet<&String> = live.keys().chain(vals.keys()).collect();
            for k in keys {
                self.cells_compared += 1;
                let a = live.get(k).cloned().unwrap_or_else(|| "<absent>".into());
                let b = vals.get(k).cloned().unwrap_or_else(|| "<absent>".into());
                if a != b {
                    diffs.push(DiffLine { facet: "cell.value".into(), at: k.clone(), expected: format!("{b} (built by: {})", v.label), actual: a });
                }
            }
            for mut l in v.second_eval {
                l.actual = format!("{} (second evaluation; built by: {})", l.actual, v.label);
                diffs.push(l);
            }
            if !diffs.is_empty() {
                break;
            }
        }
        if diffs.is_empty() {
            return Verdict::Ok;
        }
        Verdict::Violation(Violation::from_diff(
            "schedule-independent",
            idx,
            idx,
            "probe",
            diffs,
            "the same inputs typed under another schedule give other values (expected = the rebuilt workbook, actual = the live node)".into(),
        ))
    }
}

impl Oracle for ScheduleOracle {
    fn init(&mut self, _w: &World) {}
    fn after(&mut self, w: &mut World, ev: &Ev, res: &StepRes, idx: usize) -> Verdict {
        if let Some(p) = &res.panic {
            return Verdict::Abandon(Abandon(format!("panic in {}: {p}", ev.kind())));
        }
        if w.primary.stale || w.primary.paused {
            return Verdict::Ok;
        }
        let h = crate::rng::mix(w.init.hash_key, idx as u64, 0xc07);
        if !(ev.is_user_op() || matches!(ev, Ev::Undo | Ev::Redo | Ev::Restart { .. })) || h % 5 != 0 {
            return Verdict::Ok;
        }
        self.probe(w, idx)
    }
    fn finish(&mut self, w: &mut World, idx: usize) -> Verdict {
        if w.primary.stale || w.primary.paused {
            return Verdict::Ok;
        }
        self.probe(w, idx)
    }
    fn exercised(&self) -> u64 {
        self.variants_compared
    }
    fn counters(&self) -> Vec<(String, u64)> {
        vec![
            ("states_rebuilt".into(), self.probes),
            ("schedules_compared".into(), self.variants_compared),
            ("cells_compared".into(), self.cells_compared),
            ("formulas_in_rebuilt_states".into(), self.formulas_in_probes),
            ("dynamic_anchors_in_rebuilt_states".into(), self.dynamic_in_probes),
            ("variants_dropped_retyping_not_faithful".into(), self.retype_not_faithful),
        ]
    }
}
