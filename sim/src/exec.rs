//! Run-thread management: every simulated run (and every replay of a
//! candidate) executes on a fresh thread whose entropy key is set first, so
//! that hash-map iteration orders are a function of the run alone.

use std::sync::mpsc;
use std::time::Duration;

pub enum ThreadResult<T> {
    Done(T),
    Panicked(String),
    Hung,
}

pub fn watchdog_secs() -> u64 {
    std::env::var("VERIF_WATCHDOG_S").ok().and_then(|s| s.parse().ok()).unwrap_or(20)
}

pub fn on_run_thread<T: Send + 'static>(key: u64, f: impl FnOnce() -> T + Send + 'static) -> ThreadResult<T> {
    let (tx, rx) = mpsc::channel();
    let builder = std::thread::Builder::new().stack_size(64 << 20);
    let handle = builder.spawn(move || {
        crate::entropy::set_thread_key(key);
        let r = std::panic::catch_unwind(std::panic::AssertUnwindSafe(f));
        let _ = tx.send(match r {
            Ok(v) => Ok(v),
            Err(e) => Err(crate::world::panic_message(e)),
        });
    });
    let handle = match handle {
        Ok(h) => h,
        Err(e) => return ThreadResult::Panicked(format!("harness: cannot spawn thread: {e}")),
    };
    match rx.recv_timeout(Duration::from_secs(watchdog_secs())) {
        Ok(Ok(v)) => {
            let _ = handle.join();
            ThreadResult::Done(v)
        }
        Ok(Err(p)) => {
            let _ = handle.join();
            ThreadResult::Panicked(p)
        }
        Err(_) => ThreadResult::Hung,
    }
}

/// Builds every lazily-initialised process-wide table of the engine on a
/// throw-away thread, so that the number of `RandomState::new()` calls inside
/// a run is a function of the run alone (DESIGN §2.3).
pub fn warm_up() {
    let h = std::thread::spawn(|| {
        for lang in crate::node::LANGS {
            for locale in crate::node::LOCALES {
                if let Ok(mut m) = ironcalc_base::Model::new_empty("warm", locale, "UTC", lang) {
                    let _ = m.set_user_input(0, 1, 1, "=SUM(A2:B3)+1".to_string());
                    let _ = m.set_user_input(0, 2, 1, "2024-01-15".to_string());
                    let _ = m.set_user_input(0, 2, 2, "$5".to_string());
                    let _ = m.set_user_input(0, 3, 1, "https://example.com".to_string());
                    m.evaluate();
                    let _ = m.get_formatted_cell_value(0, 2, 1);
                    let bytes = m.to_bytes();
                    let _ = ironcalc_base::Model::from_bytes(&bytes, lang);
                }
            }
        }
        if let Ok(mut um) = ironcalc_base::UserModel::new_empty("warm", "en", "UTC", "en") {
            let _ = um.set_user_input(0, 1, 1, "=1+1");
            let _ = um.set_timezone("Europe/Berlin");
            let _ = crate::world::xlsx_round_trip(um.get_model(), "en");
        }
        let _ = ironcalc_base::get_all_timezones();
    });
    let _ = h.join();
}
