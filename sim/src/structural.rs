//! Reference displacement model (DESIGN Appendix B) and the oracles built on it:
//! C12 insert, C13 delete, C14 insert-then-delete, C15 move, C16 cut/copy-paste,
//! C17 sheet rename/move/duplicate, C33 links and conditional formats.
//!
//! The model is an independent re-implementation, on absolute coordinates, of what the
//! engine's displacement code should do. It is applied to cell positions (content, kind,
//! typed value, style, link), to the reference leaves of the engine's own parsed formula
//! trees (walked before and after the operation), to link keys and to the corners of
//! conditional-format ranges. Values are compared for *eligible* formulas only: those
//! all of whose leaves the model constrains, and that do not (transitively, by the static
//! dependency graph) read a formula that is not eligible.

use crate::deps;
use crate::ev::Ev;
use crate::oracle::{Abandon, Oracle, Verdict, Violation};
use crate::snap::{snapshot, DiffLine, Snap};
use crate::world::{StepRes, World};
use ironcalc_base::expressions::parser::Node;
use ironcalc_base::types::Cell;
use ironcalc_base::Model;
use std::collections::{BTreeMap, BTreeSet, HashSet};

pub const LAST_ROW: i32 = 1_048_576;
pub const LAST_COL: i32 = 16_384;

type Pos = (u32, i32, i32);

#[derive(Clone, Copy, Debug, PartialEq, Eq)]
pub enum Focus {
    Insert,
    Delete,
    InsDel,
    Move,
    Clip,
    Sheet,
    Meta,
}

#[derive(Clone, Debug)]
enum Op {
    Ins { sheet: u32, rows: bool, p: i32, k: i32 },
    Del { sheet: u32, rows: bool, p: i32, k: i32 },
    Mov { sheet: u32, rows: bool, p: i32, n: i32, d: i32 },
    Cut { ss: u32, r0: i32, c0: i32, r1: i32, c1: i32, ds: u32, dr: i32, dc: i32 },
}

fn last_of(rows: bool) -> i32 {
    if rows {
        LAST_ROW
    } else {
        LAST_COL
    }
}

impl Op {
    /// image of a line index along the axis of an axis operation
    fn line(&self, x: i32) -> Option<i32> {
        match *self {
            Op::Ins { rows, p, k, .. } => {
                if x < p {
                    Some(x)
                } else if x + k > last_of(rows) {
                    None
                } else {
                    Some(x + k)
                }
            }
            Op::Del { p, k, .. } => {
                if x < p {
                    Some(x)
                } else if x < p + k {
                    None
                } else {
                    Some(x - k)
                }
            }
            Op::Mov { p, n, d, .. } => {
                if x >= p && x < p + n {
                    Some(x + d)
                } else if d > 0 && x >= p + n && x < p + n + d {
                    Some(x - n)
                } else if d < 0 && x >= p + d && x < p {
                    Some(x + n)
                } else {
                    Some(x)
                }
            }
            Op::Cut { .. } => Some(x),
        }
    }
    fn axis(&self) -> Option<(u32, bool)> {
        match *self {
            Op::Ins { sheet, rows, .. } | Op::Del { sheet, rows, .. } | Op::Mov { sheet, rows, .. } => Some((sheet, rows)),
            Op::Cut { .. } => None,
        }
    }
    fn in_cut_area(&self, s: u32, r: i32, c: i32) -> bool {
        match *self {
            Op::Cut { ss, r0, c0, r1, c1, .. } => s == ss && r >= r0 && r <= r1 && c >= c0 && c <= c1,
            _ => false,
        }
    }
    fn in_cut_target(&self, s: u32, r: i32, c: i32) -> bool {
        match *self {
            Op::Cut { r0, c0, r1, c1, ds, dr, dc, .. } => s == ds && r >= dr && r <= dr + (r1 - r0) && c >= dc && c <= dc + (c1 - c0),
            _ => false,
        }
    }
    /// image of a cell position; None = the cell is deleted / pushed off the grid
    fn pos(&self, (s, r, c): Pos) -> Option<Pos> {
        match *self {
            Op::Cut { r0, c0, ds, dr, dc, .. } => {
                if self.in_cut_area(s, r, c) {
                    Some((ds, r - r0 + dr, c - c0 + dc))
                } else {
                    Some((s, r, c))
                }
            }
            _ => {
                let (sheet, rows) = self.axis()?;
                if s != sheet {
                    return Some((s, r, c));
                }
                if rows {
                    self.line(r).map(|y| (s, y, c))
                } else {
                    self.line(c).map(|y| (s, r, y))
                }
            }
        }
    }
    /// region of a line for a move: 0 = moved block, 1 = shifted band, 2 = rest
    fn region(&self, x: i32) -> u8 {
        match *self {
            Op::Mov { p, n, d, .. } => {
                if x >= p && x < p + n {
                    0
                } else if (d > 0 && x >= p + n && x < p + n + d) || (d < 0 && x >= p + d && x < p) {
                    1
                } else {
                    2
                }
            }
            _ => 2,
        }
    }
}

// ---------------------------------------------------------------------------
// leaves of a formula tree

#[derive(Clone, Debug, PartialEq)]
enum Leaf {
    Ref { sheet: u32, named: bool, ar: bool, ac: bool, r: i32, c: i32 },
    Range { sheet: u32, named: bool, ar1: bool, ac1: bool, r1: i32, c1: i32, ar2: bool, ac2: bool, r2: i32, c2: i32 },
    /// anything reference-like that is not a live reference (#REF!, wrong reference, `A1:#REF!`)
    Broken(String),
}

/// a range is the same range whichever way round its corners are written: rows and columns
/// are ordered separately, each coordinate keeping its own `$`
fn canon(l: &Leaf) -> Leaf {
    match l.clone() {
        Leaf::Range { sheet, named, ar1, ac1, r1, c1, ar2, ac2, r2, c2 } => {
            let ((ra, rfa), (rb, rfb)) = if r1 <= r2 { ((r1, ar1), (r2, ar2)) } else { ((r2, ar2), (r1, ar1)) };
            let ((ca, cfa), (cb, cfb)) = if c1 <= c2 { ((c1, ac1), (c2, ac2)) } else { ((c2, ac2), (c1, ac1)) };
            Leaf::Range { sheet, named, ar1: rfa, ac1: cfa, r1: ra, c1: ca, ar2: rfb, ac2: cfb, r2: rb, c2: cb }
        }
        other => other,
    }
}

fn unnamed(l: &Leaf) -> Leaf {
    match l.clone() {
        Leaf::Ref { sheet, ar, ac, r, c, .. } => Leaf::Ref { sheet, named: false, ar, ac, r, c },
        Leaf::Range { sheet, ar1, ac1, r1, c1, ar2, ac2, r2, c2, .. } => Leaf::Range { sheet, named: false, ar1, ac1, r1, c1, ar2, ac2, r2, c2 },
        b => b,
    }
}

#[derive(Default)]
struct Flat {
    shape: String,
    leaves: Vec<Leaf>,
    /// contains something the model says nothing about (names, lambdas, tables, implicit
    /// intersection, spill-range operator, parse errors)
    opaque: bool,
}

fn flatten(node: &Node, host: (i32, i32), out: &mut Flat) {
    use Node::*;
    let (hr, hc) = host;
    match node {
        ReferenceKind { sheet_name, sheet_index, absolute_row, absolute_column, row, column } => {
            out.shape.push('§');
            out.leaves.push(Leaf::Ref {
                sheet: *sheet_index,
                named: sheet_name.is_some(),
                ar: *absolute_row,
                ac: *absolute_column,
                r: if *absolute_row { *row } else { row + hr },
                c: if *absolute_column { *column } else { column + hc },
            });
        }
        RangeKind { sheet_name, sheet_index, absolute_row1, absolute_column1, row1, column1, absolute_row2, absolute_column2, row2, column2 } => {
            out.shape.push('§');
            out.leaves.push(Leaf::Range {
                sheet: *sheet_index,
                named: sheet_name.is_some(),
                ar1: *absolute_row1,
                ac1: *absolute_column1,
                r1: if *absolute_row1 { *row1 } else { row1 + hr },
                c1: if *absolute_column1 { *column1 } else { column1 + hc },
                ar2: *absolute_row2,
                ac2: *absolute_column2,
                r2: if *absolute_row2 { *row2 } else { row2 + hr },
                c2: if *absolute_column2 { *column2 } else { column2 + hc },
            });
        }
        WrongReferenceKind { .. } | WrongRangeKind { .. } | OpRangeKind { .. } => {
            out.shape.push('§');
            out.leaves.push(Leaf::Broken(format!("{node:?}")));
        }
        ErrorKind(e) => {
            if format!("{e}") == "#REF!" {
                out.shape.push('§');
                out.leaves.push(Leaf::Broken("#REF!".into()));
            } else {
                out.shape.push_str(&format!("E({e})"));
            }
        }
        BooleanKind(b) => out.shape.push_str(&format!("B({b})")),
        NumberKind(n) => out.shape.push_str(&format!("N({n:?})")),
        StringKind(s) => out.shape.push_str(&format!("S({s:?})")),
        EmptyArgKind => out.shape.push('_'),
        ArrayKind(a) => out.shape.push_str(&format!("A({a:?})")),
        OpConcatenateKind { left, right } => bin(out, "&", left, right, host),
        OpSumKind { kind, left, right } => bin(out, &format!("{kind:?}"), left, right, host),
        OpProductKind { kind, left, right } => bin(out, &format!("{kind:?}"), left, right, host),
        OpPowerKind { left, right } => bin(out, "^", left, right, host),
        CompareKind { kind, left, right } => bin(out, &format!("{kind:?}"), left, right, host),
        UnaryKind { kind, right } => {
            out.shape.push_str(&format!("U{kind:?}("));
            flatten(right, host, out);
            out.shape.push(')');
        }
        FunctionKind { kind, args } => {
            out.shape.push_str(&format!("F{kind:?}("));
            for a in args {
                flatten(a, host, out);
                out.shape.push(',');
            }
            out.shape.push(')');
        }
        NamedFunctionKind { name, args, .. } => {
            out.opaque = true;
            out.shape.push_str(&format!("NF{name}("));
            for a in args {
                flatten(a, host, out);
                out.shape.push(',');
            }
            out.shape.push(')');
        }
        LambdaDefKind { body, parameters } => {
            out.opaque = true;
            out.shape.push_str(&format!("L{}(", parameters.len()));
            flatten(body, host, out);
            out.shape.push(')');
        }
        LambdaCallKind { lambda, args } => {
            out.opaque = true;
            out.shape.push_str("LC(");
            flatten(lambda, host, out);
            for a in args {
                out.shape.push(',');
                flatten(a, host, out);
            }
            out.shape.push(')');
        }
        DefinedNameKind(d) => {
            out.opaque = true;
            out.shape.push_str(&format!("DN({})", d.0));
        }
        TableNameKind(t) => {
            out.opaque = true;
            out.shape.push_str(&format!("T({t})"));
        }
        NamedVariableKind { name, .. } => {
            out.opaque = true;
            out.shape.push_str(&format!("V({name})"));
        }
        ImplicitIntersection { child, .. } => {
            out.opaque = true;
            out.shape.push_str("@(");
            flatten(child, host, out);
            out.shape.push(')');
        }
        SpillRangeOperator { child } => {
            out.opaque = true;
            out.shape.push_str("#(");
            flatten(child, host, out);
            out.shape.push(')');
        }
        ParseErrorKind { formula, .. } => {
            out.opaque = true;
            out.shape.push_str(&format!("PE({formula})"));
        }
    }
}

fn bin(out: &mut Flat, op: &str, l: &Node, r: &Node, host: (i32, i32)) {
    out.shape.push('(');
    flatten(l, host, out);
    out.shape.push_str(op);
    flatten(r, host, out);
    out.shape.push(')');
}

/// The printer writes `a+(b+c)` as `a+b+c` (its tests pin that down), which reads back as
/// `(a+b)+c`: both trees are brought to the left-leaning form before they are compared.
fn lean_left(node: &Node) -> Node {
    use Node::*;
    let mut n = node.clone();
    fn go(n: &mut Node) {
        match n {
            OpSumKind { kind, left, right } => {
                go(left);
                go(right);
                if format!("{kind:?}") == "Add" {
                    if let OpSumKind { kind: k2, left: b, right: c } = (**right).clone() {
                        // a + (b k2 c)  ->  (a + b) k2 c
                        let ab = OpSumKind { kind: kind.clone(), left: left.clone(), right: b };
                        let mut ab = ab;
                        go(&mut ab);
                        *n = OpSumKind { kind: k2, left: Box::new(ab), right: c };
                    }
                }
            }
            OpConcatenateKind { left, right } => {
                go(left);
                go(right);
                // a & (b & c)  ->  (a & b) & c: the same text
                if let OpConcatenateKind { left: b, right: c } = (**right).clone() {
                    let mut ab = OpConcatenateKind { left: left.clone(), right: b };
                    go(&mut ab);
                    *n = OpConcatenateKind { left: Box::new(ab), right: c };
                }
            }
            OpRangeKind { left, right } | OpProductKind { left, right, .. } | OpPowerKind { left, right } | CompareKind { left, right, .. } => {
                go(left);
                go(right);
            }
            UnaryKind { kind, right } => {
                go(right);
                // --x prints as such and reads back as x
                if format!("{kind:?}") == "Minus" {
                    if let UnaryKind { kind: k2, right: inner } = (**right).clone() {
                        if format!("{k2:?}") == "Minus" {
                            *n = *inner;
                            go(n);
                            return;
                        }
                    }
                }
                // a signed number literal
                if format!("{kind:?}") == "Minus" {
                    if let NumberKind(x) = **right {
                        *n = NumberKind(-x);
                        return;
                    }
                }
                // -(a*b) and (-a)*b (likewise /) are the same number, and print the same
                if format!("{kind:?}") == "Minus" {
                    if let OpProductKind { kind: pk, left: a, right: b } = (**right).clone() {
                        let mut na = UnaryKind { kind: kind.clone(), right: a };
                        go(&mut na);
                        *n = OpProductKind { kind: pk, left: Box::new(na), right: b };
                        return;
                    }
                }
                // -(a%) and (-a)% are the same number, and print the same
                if format!("{kind:?}") == "Minus" {
                    if let UnaryKind { kind: k2, right: inner } = (**right).clone() {
                        if format!("{k2:?}") == "Percentage" {
                            // the moved minus meets what is below it: a literal, another sign, a product
                            let mut neg = UnaryKind { kind: kind.clone(), right: inner };
                            go(&mut neg);
                            *n = UnaryKind { kind: k2, right: Box::new(neg) };
                        }
                    }
                }
            }
            FunctionKind { args, .. } | NamedFunctionKind { args, .. } => args.iter_mut().for_each(go),
            LambdaDefKind { body, .. } => go(body),
            LambdaCallKind { lambda, args } => {
                go(lambda);
                args.iter_mut().for_each(go);
            }
            ImplicitIntersection { child, .. } | SpillRangeOperator { child } => go(child),
            _ => {}
        }
    }
    go(&mut n);
    n
}

fn flat(node: &Node, host: (i32, i32)) -> Flat {
    let mut f = Flat::default();
    flatten(&lean_left(node), host, &mut f);
    f
}

#[derive(Debug, Clone, PartialEq)]
enum Expect {
    Exact(Leaf),
    Broken,
    /// the statement (and the model) leave this leaf alone
    Any,
}

/// what a leaf of a formula must look like after the operation; `grew` is set when a range
/// received new lines in its interior
fn expect_leaf(op: &Op, leaf: &Leaf, grew: &mut bool) -> Expect {
    match leaf {
        Leaf::Broken(_) => Expect::Broken,
        Leaf::Ref { sheet, named, ar, ac, r, c } => match op {
            Op::Cut { .. } => {
                if op.in_cut_area(*sheet, *r, *c) {
                    match op.pos((*sheet, *r, *c)) {
                        Some((s2, r2, c2)) => Expect::Exact(Leaf::Ref { sheet: s2, named: *named, ar: *ar, ac: *ac, r: r2, c: c2 }),
                        None => Expect::Broken,
                    }
                } else if op.in_cut_target(*sheet, *r, *c) {
                    // points at a cell the paste overwrites: nothing is said about it
                    Expect::Any
                } else {
                    Expect::Exact(leaf.clone())
                }
            }
            _ => match op.pos((*sheet, *r, *c)) {
                Some((s2, r2, c2)) => Expect::Exact(Leaf::Ref { sheet: s2, named: *named, ar: *ar, ac: *ac, r: r2, c: c2 }),
                None => Expect::Broken,
            },
        },
        Leaf::Range { sheet, named, ar1, ac1, r1, c1, ar2, ac2, r2, c2 } => {
            let mk = |r1: i32, c1: i32, r2: i32, c2: i32, s: u32| Leaf::Range { sheet: s, named: *named, ar1: *ar1, ac1: *ac1, r1, c1, ar2: *ar2, ac2: *ac2, r2, c2 };
            match op {
                Op::Cut { .. } => {
                    let a = op.in_cut_area(*sheet, *r1, *c1);
                    let b = op.in_cut_area(*sheet, *r2, *c2);
                    if a && b {
                        match (op.pos((*sheet, *r1, *c1)), op.pos((*sheet, *r2, *c2))) {
                            (Some((s, a1, b1)), Some((_, a2, b2))) => Expect::Exact(mk(a1, b1, a2, b2, s)),
                            _ => Expect::Broken,
                        }
                    } else if a || b {
                        Expect::Any
                    } else {
                        // a range that contains cut or overwritten cells changes what it reads
                        Expect::Exact(leaf.clone())
                    }
                }
                _ => {
                    let (os, rows) = match op.axis() {
                        Some(x) => x,
                        None => return Expect::Any,
                    };
                    if *sheet != os {
                        return Expect::Exact(leaf.clone());
                    }
                    let (a, b, abs) = if rows { (*r1, *r2, *ar1 && *ar2) } else { (*c1, *c2, *ac1 && *ac2) };
                    let (lo, hi) = (a.min(b), a.max(b));
                    if lo == 1 && hi == last_of(rows) && abs {
                        // whole rows / whole columns stay whole (but they read what a
                        // deletion removes and what a move permutes: no claim on the value)
                        if !matches!(op, Op::Ins { .. }) {
                            *grew = true;
                        }
                        return Expect::Exact(leaf.clone());
                    }
                    match op {
                        Op::Ins { p, .. } => match (op.line(a), op.line(b)) {
                            (Some(x), Some(y)) => {
                                if lo < *p && *p <= hi {
                                    *grew = true;
                                }
                                if rows {
                                    Expect::Exact(mk(x, *c1, y, *c2, *sheet))
                                } else {
                                    Expect::Exact(mk(*r1, x, *r2, y, *sheet))
                                }
                            }
                            _ => Expect::Broken,
                        },
                        Op::Del { p, k, .. } => {
                            if hi < *p || lo >= p + k {
                                match (op.line(a), op.line(b)) {
                                    (Some(x), Some(y)) => {
                                        if rows {
                                            Expect::Exact(mk(x, *c1, y, *c2, *sheet))
                                        } else {
                                            Expect::Exact(mk(*r1, x, *r2, y, *sheet))
                                        }
                                    }
                                    _ => Expect::Any,
                                }
                            } else {
                                Expect::Any
                            }
                        }
                        Op::Mov { p, n, d, .. } => {
                            let (zlo, zhi) = if *d > 0 { (*p, p + n + d - 1) } else { (p + d, p + n - 1) };
                            let outside = hi < zlo || lo > zhi;
                            let same = op.region(lo) == op.region(hi) && op.region(lo) != 2;
                            if outside || same {
                                match (op.line(a), op.line(b)) {
                                    (Some(x), Some(y)) => {
                                        if rows {
                                            Expect::Exact(mk(x, *c1, y, *c2, *sheet))
                                        } else {
                                            Expect::Exact(mk(*r1, x, *r2, y, *sheet))
                                        }
                                    }
                                    _ => Expect::Any,
                                }
                            } else {
                                Expect::Any
                            }
                        }
                        Op::Cut { .. } => Expect::Any,
                    }
                }
            }
        }
    }
}

// ---------------------------------------------------------------------------
// what is captured before the event

struct Pre {
    snap: Snap,
    forms: BTreeMap<Pos, Node>,
    units: Vec<deps::Unit>,
    stale: bool,
    nsheets: usize,
    sheet_names: Vec<String>,
    /// hidden lines per (sheet, rows)
    hidden_rows: BTreeMap<u32, Vec<i32>>,
    hidden_cols: BTreeMap<u32, Vec<(i32, i32)>>,
    cf_nodes: BTreeMap<(u32, usize), Vec<(String, Node, (i32, i32))>>,
    /// used range (max row, max column) per sheet
    dims: Vec<(i32, i32)>,
}

fn formulas_of(model: &Model) -> BTreeMap<Pos, Node> {
    let mut m = BTreeMap::new();
    for (si, ws) in model.workbook.worksheets.iter().enumerate() {
        for (r, row) in &ws.sheet_data {
            for (c, cell) in row {
                let f = match cell {
                    Cell::CellFormula { f, .. } | Cell::ArrayFormula { f, .. } => *f,
                    _ => continue,
                };
                if let Some((node, _)) = model.parsed_formulas.get(si).and_then(|v| v.get(f as usize)) {
                    m.insert((si as u32, *r, *c), node.clone());
                }
            }
        }
    }
    m
}

fn cell_positions(s: &Snap) -> BTreeSet<Pos> {
    let mut out = BTreeSet::new();
    for k in s.keys() {
        if let Some(at) = k.strip_prefix("cell.kind@") {
            if let Some(p) = deps::parse_at(at) {
                out.insert(p);
            }
        }
    }
    out
}

fn at(p: Pos) -> String {
    format!("{}!R{}C{}", p.0, p.1, p.2)
}

fn get<'a>(s: &'a Snap, facet: &str, p: Pos) -> Option<&'a String> {
    s.get(&format!("{facet}@{}", at(p)))
}

/// a dynamic-array anchor and a plain formula are the same kind of cell for these
/// oracles (whether a formula is stored as an anchor is decided when it is typed)
fn kind_class(k: &str) -> &str {
    if k.starts_with("dyn ") {
        "formula"
    } else {
        k
    }
}

/// parse "A1:B3" / "A1" into ((r1,c1),(r2,c2))
fn parse_a1_range(t: &str) -> Option<((i32, i32), (i32, i32))> {
    fn cell(t: &str) -> Option<(i32, i32)> {
        let t = t.replace('$', "");
        let letters: String = t.chars().take_while(|c| c.is_ascii_alphabetic()).collect();
        let digits = &t[letters.len()..];
        if letters.is_empty() || digits.is_empty() {
            return None;
        }
        let mut c = 0i32;
        for ch in letters.to_ascii_uppercase().chars() {
            c = c * 26 + (ch as i32 - 'A' as i32 + 1);
        }
        Some((digits.parse().ok()?, c))
    }
    match t.split_once(':') {
        Some((a, b)) => Some((cell(a)?, cell(b)?)),
        None => {
            let c = cell(t)?;
            Some((c, c))
        }
    }
}

fn col_name(mut c: i32) -> String {
    let mut s = String::new();
    while c > 0 {
        let r = ((c - 1) % 26) as u8;
        s.insert(0, (b'A' + r) as char);
        c = (c - 1) / 26;
    }
    s
}

fn a1_range(a: (i32, i32), b: (i32, i32)) -> String {
    if a == b {
        format!("{}{}", col_name(a.1), a.0)
    } else {
        format!("{}{}:{}{}", col_name(a.1), a.0, col_name(b.1), b.0)
    }
}

// ---------------------------------------------------------------------------

pub struct Structural {
    focus: Focus,
    pre: Option<Pre>,
    ops_checked: u64,
    cells_mapped: u64,
    leaves_checked: u64,
    leaves_unconstrained: u64,
    values_compared: u64,
    values_ineligible: u64,
    skipped_stale: u64,
    skipped_precondition: u64,
    meta_checked: u64,
    /// links removed by the clear that was the previous event: undo must bring them back
    cleared_links: Vec<(String, String)>,
}

impl Structural {
    pub fn new(focus: Focus) -> Structural {
        Structural {
            focus,
            pre: None,
            ops_checked: 0,
            cells_mapped: 0,
            leaves_checked: 0,
            leaves_unconstrained: 0,
            values_compared: 0,
            values_ineligible: 0,
            skipped_stale: 0,
            skipped_precondition: 0,
            meta_checked: 0,
            cleared_links: Vec::new(),
        }
    }

    fn wants(&self, ev: &Ev) -> bool {
        match self.focus {
            Focus::Insert => matches!(ev, Ev::InsertRows { .. } | Ev::InsertCols { .. }),
            Focus::Delete => matches!(ev, Ev::DeleteRows { .. } | Ev::DeleteCols { .. }),
            Focus::InsDel => matches!(ev, Ev::InsertThenDelete { .. }),
            Focus::Move => matches!(ev, Ev::MoveRows { .. } | Ev::MoveCols { .. }),
            Focus::Clip => matches!(ev, Ev::CopyPaste { .. }),
            Focus::Sheet => matches!(ev, Ev::RenameSheet { .. } | Ev::MoveSheet { .. } | Ev::DuplicateSheet { .. }),
            Focus::Meta => matches!(
                ev,
                Ev::InsertRows { .. }
                    | Ev::InsertCols { .. }
                    | Ev::DeleteRows { .. }
                    | Ev::DeleteCols { .. }
                    | Ev::MoveRows { .. }
                    | Ev::MoveCols { .. }
                    | Ev::CopyPaste { cut: true, .. }
                    | Ev::ClearContents { .. }
                    | Ev::ClearAll { .. }
                    | Ev::Input { .. }
            ),
        }
    }

    fn capture(w: &World) -> Pre {
        let model = w.primary.model();
        let mut hidden_rows = BTreeMap::new();
        let mut hidden_cols = BTreeMap::new();
        let mut cf_nodes = BTreeMap::new();
        let names: Vec<String> = model.workbook.worksheets.iter().map(|s| s.get_name()).collect();
        for (si, ws) in model.workbook.worksheets.iter().enumerate() {
            hidden_rows.insert(si as u32, ws.rows.iter().filter(|r| r.hidden).map(|r| r.r).collect::<Vec<_>>());
            hidden_cols.insert(si as u32, ws.cols.iter().filter(|c| c.hidden).map(|c| (c.min, c.max)).collect::<Vec<_>>());
            for (k, cf) in ws.conditional_formatting.iter().enumerate() {
                let mut v = Vec::new();
                let host = cf.range.split_whitespace().next().and_then(parse_a1_range).map(|x| x.0).unwrap_or((1, 1));
                for f in cf_formulas(&cf.cf_rule) {
                    let mut parser = ironcalc_base::expressions::parser::new_parser_english(names.clone(), model.workbook.get_defined_names_with_scope(), model.workbook.tables.clone());
                    let ctx = ironcalc_base::expressions::types::CellReferenceRC { sheet: ws.get_name(), row: host.0, column: host.1 };
                    let body = f.strip_prefix('=').unwrap_or(&f);
                    let node = parser.parse(body, &ctx);
                    v.push((f.clone(), node, host));
                }
                cf_nodes.insert((si as u32, k), v);
            }
        }
        let dims = model.workbook.worksheets.iter().map(|ws| { let d = ws.dimension(); (d.max_row, d.max_column) }).collect();
        Pre {
            dims,
            snap: snapshot(&w.primary),
            forms: formulas_of(model),
            units: deps::units(model),
            stale: w.primary.stale,
            nsheets: model.workbook.worksheets.len(),
            sheet_names: names,
            hidden_rows,
            hidden_cols,
            cf_nodes,
        }
    }
}

fn cf_formulas(rule: &ironcalc_base::cf_types::CfRule) -> Vec<String> {
    // through serde: every string field called "formula" / "formula2"
    let mut out = Vec::new();
    if let Ok(serde_json::Value::Object(o)) = serde_json::to_value(rule) {
        for k in ["formula", "formula2"] {
            if let Some(serde_json::Value::String(s)) = o.get(k) {
                out.push(s.clone());
            }
        }
    }
    out
}

fn count_hidden_between(pre: &Pre, sheet: u32, rows: bool, lo: i32, hi: i32) -> i32 {
    if rows {
        pre.hidden_rows.get(&sheet).map(|v| v.iter().filter(|r| **r >= lo && **r <= hi).count() as i32).unwrap_or(0)
    } else {
        pre.hidden_cols
            .get(&sheet)
            .map(|v| v.iter().map(|(a, b)| ((*b).min(hi) - (*a).max(lo) + 1).max(0)).sum::<i32>())
            .unwrap_or(0)
    }
}

struct CheckOut {
    diff: Vec<DiffLine>,
    cells: u64,
    leaves: u64,
    unconstrained: u64,
    values: u64,
    ineligible: u64,
}

/// the core: pre-state, operation, post-state -> differences from the reference model
fn check_op(pre: &Pre, op: &Op, post: &Snap, post_model: &Model, values: bool, cells: bool) -> CheckOut {
    let mut out = CheckOut { diff: Vec::new(), cells: 0, leaves: 0, unconstrained: 0, values: 0, ineligible: 0 };
    let post_forms = formulas_of(post_model);
    let pre_cells = cell_positions(&pre.snap);
    let post_cells = cell_positions(post);
    let mut images: BTreeSet<Pos> = BTreeSet::new();
    let is_cut = matches!(op, Op::Cut { .. });
    // ---- (a) cells
    if cells {
        for p in &pre_cells {
            let kind = get(&pre.snap, "cell.kind", *p).cloned().unwrap_or_default();
            if kind.starts_with("spill of") {
                continue;
            }
            if is_cut && op.in_cut_target(p.0, p.1, p.2) && !op.in_cut_area(p.0, p.1, p.2) {
                // overwritten by the paste
                continue;
            }
            let q = match op.pos(*p) {
                Some(q) => q,
                None => continue,
            };
            images.insert(q);
            out.cells += 1;
            let post_kind = get(post, "cell.kind", q).cloned();
            if kind == "empty" {
                // a styled empty cell: its effective style must be found at the image
                let want = get(&pre.snap, "cell.style", *p).cloned().unwrap_or_default();
                let have = match get(post, "cell.style", q) {
                    Some(s) => s.clone(),
                    None => post_model.get_style_for_cell(q.0, q.1, q.2).map(|s| crate::snap::style_json(&s)).unwrap_or_default(),
                };
                if want != have {
                    out.diff.push(DiffLine { facet: "cell.style".into(), at: at(q), expected: format!("{want} (style of the empty cell at {})", at(*p)), actual: have });
                }
                continue;
            }
            match post_kind {
                None => {
                    out.diff.push(DiffLine { facet: "cell.kind".into(), at: at(q), expected: format!("{kind} (from {})", at(*p)), actual: "<absent>".into() });
                    continue;
                }
                Some(k2) => {
                    if kind_class(&k2) != kind_class(&kind) {
                        out.diff.push(DiffLine { facet: "cell.kind".into(), at: at(q), expected: format!("{kind} (from {})", at(*p)), actual: k2 });
                        continue;
                    }
                }
            }
            let is_formula = pre.forms.contains_key(p);
            let facets: &[&str] = if is_formula { &["cell.style"] } else { &["cell.style", "cell.content", "cell.value"] };
            for f in facets {
                let a = get(&pre.snap, f, *p);
                let b = get(post, f, q);
                if a != b {
                    out.diff.push(DiffLine {
                        facet: (*f).into(),
                        at: at(q),
                        expected: format!("{} (from {})", a.cloned().unwrap_or_else(|| "<absent>".into()), at(*p)),
                        actual: b.cloned().unwrap_or_else(|| "<absent>".into()),
                    });
                }
            }
        }
        // nothing appears from nowhere (blank styled cells of an inserted band are not asserted)
        for q in &post_cells {
            if images.contains(q) {
                continue;
            }
            let k = get(post, "cell.kind", *q).cloned().unwrap_or_default();
            if k == "empty" || k.starts_with("spill of") {
                continue;
            }
            if is_cut && op.in_cut_target(q.0, q.1, q.2) {
                continue;
            }
            out.diff.push(DiffLine { facet: "cell.kind".into(), at: at(*q), expected: "<absent> (no cell of the old sheet maps here)".into(), actual: k });
        }
        // a cut leaves its source empty (where the paste did not write)
        if let Op::Cut { ss, r0, c0, r1, c1, .. } = op {
            for r in *r0..=*r1 {
                for c in *c0..=*c1 {
                    if op.in_cut_target(*ss, r, c) {
                        continue;
                    }
                    if let Some(k) = get(post, "cell.kind", (*ss, r, c)) {
                        // (the spill of an array anchored outside the area stays, or comes back)
                        if k != "empty" && !k.starts_with("spill of") {
                            out.diff.push(DiffLine { facet: "cell.kind".into(), at: at((*ss, r, c)), expected: "<absent> (cut source)".into(), actual: k.clone() });
                        }
                    }
                }
            }
        }
        // links follow their cells
        for (k, v) in pre.snap.iter() {
            if let Some(a) = k.strip_prefix("link@") {
                if let Some(p) = deps::parse_at(a) {
                    if is_cut && op.in_cut_target(p.0, p.1, p.2) && !op.in_cut_area(p.0, p.1, p.2) {
                        continue;
                    }
                    if let Some(q) = op.pos(p) {
                        let have = post.get(&format!("link@{}", at(q)));
                        if have != Some(v) {
                            out.diff.push(DiffLine { facet: "link".into(), at: at(q), expected: format!("{v} (from {})", at(p)), actual: have.cloned().unwrap_or_else(|| "<absent>".into()) });
                        }
                    }
                }
            }
        }
        for k in post.keys() {
            if let Some(a) = k.strip_prefix("link@") {
                if let Some(q) = deps::parse_at(a) {
                    let has_pre = pre.snap.keys().any(|pk| pk.strip_prefix("link@").and_then(deps::parse_at).and_then(|p| op.pos(p)) == Some(q));
                    if !has_pre && !(is_cut && op.in_cut_target(q.0, q.1, q.2)) {
                        out.diff.push(DiffLine { facet: "link".into(), at: at(q), expected: "<absent>".into(), actual: post.get(k).cloned().unwrap_or_default() });
                    }
                }
            }
        }
    }
    // ---- (b) references, and eligibility for (c)
    let mut seeds: HashSet<usize> = HashSet::new();
    let cyc = deps::on_cycle(&pre.units);
    for i in &cyc {
        seeds.insert(*i);
    }
    for (i, u) in pre.units.iter().enumerate() {
        if u.is_array || u.is_dynamic || u.opaque {
            seeds.insert(i);
        }
    }
    for (p, node) in &pre.forms {
        let ui = deps::unit_at(&pre.units, p.0, p.1, p.2);
        if is_cut && op.in_cut_target(p.0, p.1, p.2) && !op.in_cut_area(p.0, p.1, p.2) {
            continue;
        }
        let q = match op.pos(*p) {
            Some(q) => q,
            None => continue,
        };
        let f0 = flat(node, (p.1, p.2));
        let post_node = match post_forms.get(&q) {
            Some(n) => n,
            None => {
                // reported by (a)
                continue;
            }
        };
        let f1 = flat(post_node, (q.1, q.2));
        let mut eligible = !f0.opaque;
        let mut expects = Vec::new();
        for l in &f0.leaves {
            let mut grew = false;
            // a formula inside the cut area keeps pointing at cells outside it by their
            // absolute position, whatever the `$` flags say
            let e = expect_leaf(op, l, &mut grew);
            if grew || !matches!(e, Expect::Exact(_)) {
                eligible = false;
            }
            // reads a cell the paste overwrites, or a range containing cut / overwritten cells
            if let Op::Cut { .. } = op {
                match l {
                    Leaf::Range { sheet, r1, c1, r2, c2, .. } => {
                        let rect = deps::Rect { sheet: *sheet, r0: *r1, c0: *c1, r1: *r2, c1: *c2 }.norm();
                        if let Op::Cut { ss, r0, c0, r1: ar1, c1: ac1, ds, dr, dc } = op {
                            let src = deps::Rect { sheet: *ss, r0: *r0, c0: *c0, r1: *ar1, c1: *ac1 };
                            let dst = deps::Rect { sheet: *ds, r0: *dr, c0: *dc, r1: dr + (ar1 - r0), c1: dc + (ac1 - c0) };
                            let inside = op.in_cut_area(*sheet, *r1, *c1) && op.in_cut_area(*sheet, *r2, *c2);
                            if !inside && (rect.intersects(&src) || rect.intersects(&dst)) {
                                eligible = false;
                            }
                        }
                    }
                    Leaf::Ref { sheet, r, c, .. } => {
                        if op.in_cut_target(*sheet, *r, *c) && !op.in_cut_area(*sheet, *r, *c) {
                            eligible = false;
                        }
                    }
                    _ => {}
                }
            }
            expects.push(e);
        }
        if !eligible {
            if let Some(i) = ui {
                seeds.insert(i);
            }
        }
        let constrained = expects.iter().all(|e| !matches!(e, Expect::Any));
        if f0.shape != f1.shape || f0.leaves.len() != f1.leaves.len() {
            if constrained && !f0.opaque {
                out.diff.push(DiffLine {
                    facet: "formula.shape".into(),
                    at: at(q),
                    expected: format!("{} (from {})", f0.shape, at(*p)),
                    actual: f1.shape.clone(),
                });
            } else {
                out.unconstrained += 1;
            }
            continue;
        }
        for (k, (e, have)) in expects.iter().zip(f1.leaves.iter()).enumerate() {
            match e {
                Expect::Any => out.unconstrained += 1,
                Expect::Broken => {
                    out.leaves += 1;
                    if !matches!(have, Leaf::Broken(_)) {
                        out.diff.push(DiffLine { facet: "formula.leaf".into(), at: format!("{}#{k}", at(q)), expected: format!("#REF! (was {:?} in {})", f0.leaves[k], at(*p)), actual: format!("{have:?}") });
                    }
                }
                Expect::Exact(want) => {
                    out.leaves += 1;
                    // a cut to another sheet spells out the sheet of what stays behind
                    let cross = matches!(op, Op::Cut { ss, ds, .. } if ss != ds);
                    if canon(want) != canon(have) && !(cross && canon(&unnamed(want)) == canon(&unnamed(have))) {
                        out.diff.push(DiffLine { facet: "formula.leaf".into(), at: format!("{}#{k}", at(q)), expected: format!("{want:?} (was {:?} in {})", f0.leaves[k], at(*p)), actual: format!("{have:?}") });
                    }
                }
            }
        }
    }
    // ---- (c) values of eligible formulas
    if values && !pre.stale {
        let tainted = deps::downstream(&pre.units, &seeds);
        // the same in the state after: a spill that grew into what a formula reads, a
        // cycle that closed because a range grew
        let post_units = deps::units(post_model);
        let mut post_seeds: HashSet<usize> = deps::on_cycle(&post_units);
        for (i, u) in post_units.iter().enumerate() {
            if u.is_array || u.is_dynamic || u.opaque {
                post_seeds.insert(i);
            }
        }
        let post_tainted = deps::downstream(&post_units, &post_seeds);
        for (i, u) in pre.units.iter().enumerate() {
            let p = (u.sheet, u.row, u.col);
            if tainted.contains(&i) {
                out.ineligible += 1;
                continue;
            }
            if let Some(q) = op.pos(p) {
                if let Some(j) = deps::unit_at(&post_units, q.0, q.1, q.2) {
                    if post_tainted.contains(&j) {
                        out.ineligible += 1;
                        continue;
                    }
                }
            }
            if is_cut && op.in_cut_target(p.0, p.1, p.2) && !op.in_cut_area(p.0, p.1, p.2) {
                continue;
            }
            let q = match op.pos(p) {
                Some(q) => q,
                None => continue,
            };
            let a = get(&pre.snap, "cell.value", p);
            let b = get(post, "cell.value", q);
            out.values += 1;
            if a != b && b.is_some() {
                out.diff.push(DiffLine {
                    facet: "formula.value".into(),
                    at: at(q),
                    expected: format!("{} (value at {} before)", a.cloned().unwrap_or_default(), at(p)),
                    actual: b.cloned().unwrap_or_default(),
                });
            }
        }
    }
    out
}

/// conditional formats: ranges and rule formulas follow the cells (C33)
fn check_cf(pre: &Pre, op: &Op, post_model: &Model) -> (Vec<DiffLine>, u64) {
    let mut d = Vec::new();
    let mut n = 0;
    let names: Vec<String> = post_model.workbook.worksheets.iter().map(|s| s.get_name()).collect();
    for (si, ws) in post_model.workbook.worksheets.iter().enumerate() {
        let s = si as u32;
        for (k, cf) in ws.conditional_formatting.iter().enumerate() {
            let pre_val = match pre.snap.get(&format!("cf@{si}#{k}")) {
                Some(v) => v,
                None => continue,
            };
            let pre_range = pre_val.strip_prefix("range=").and_then(|x| x.split(" prio=").next()).unwrap_or("");
            // ranges: every part both of whose corners the model maps
            let pre_parts: Vec<&str> = pre_range.split_whitespace().collect();
            let post_parts: Vec<&str> = cf.range.split_whitespace().collect();
            let mut want_parts = Vec::new();
            let mut constrained = true;
            for part in &pre_parts {
                match parse_a1_range(part) {
                    None => constrained = false,
                    Some((a, b)) => {
                        let leaf = Leaf::Range { sheet: s, named: false, ar1: true, ac1: true, r1: a.0, c1: a.1, ar2: true, ac2: true, r2: b.0, c2: b.1 };
                        let mut grew = false;
                        match expect_leaf(op, &leaf, &mut grew) {
                            Expect::Exact(Leaf::Range { sheet: s2, r1, c1, r2, c2, .. }) if s2 == s => want_parts.push(a1_range((r1, c1), (r2, c2))),
                            _ => constrained = false,
                        }
                    }
                }
            }
            if constrained {
                n += 1;
                let have: Vec<String> = post_parts.iter().map(|p| parse_a1_range(p).map(|(a, b)| a1_range(a, b)).unwrap_or_else(|| p.to_string())).collect();
                if have != want_parts {
                    d.push(DiffLine { facet: "cf.range".into(), at: format!("{si}#{k}"), expected: format!("{} (was {pre_range})", want_parts.join(" ")), actual: cf.range.clone() });
                }
            }
            // rule formulas: leaves relative to the top-left cell of the (first part of the) range
            let host_post = post_parts.first().and_then(|p| parse_a1_range(p)).map(|x| x.0).unwrap_or((1, 1));
            let posts = cf_formulas(&cf.cf_rule);
            if let Some(pres) = pre.cf_nodes.get(&(s, k)) {
                for (j, (text, node, host_pre)) in pres.iter().enumerate() {
                    let post_text = match posts.get(j) {
                        Some(t) => t,
                        None => continue,
                    };
                    let mut parser = ironcalc_base::expressions::parser::new_parser_english(names.clone(), post_model.workbook.get_defined_names_with_scope(), post_model.workbook.tables.clone());
                    let ctx = ironcalc_base::expressions::types::CellReferenceRC { sheet: ws.get_name(), row: host_post.0, column: host_post.1 };
                    let post_node = parser.parse(post_text.strip_prefix('=').unwrap_or(post_text), &ctx);
                    let f0 = flat(node, *host_pre);
                    let f1 = flat(&post_node, host_post);
                    if f0.opaque {
                        continue;
                    }
                    let expects: Vec<Expect> = f0.leaves.iter().map(|l| expect_leaf(op, l, &mut false)).collect();
                    if expects.iter().any(|e| matches!(e, Expect::Any)) {
                        continue;
                    }
                    n += 1;
                    if f0.shape != f1.shape || f0.leaves.len() != f1.leaves.len() {
                        d.push(DiffLine { facet: "cf.formula".into(), at: format!("{si}#{k}.{j}"), expected: format!("{} ({text})", f0.shape), actual: format!("{} ({post_text})", f1.shape) });
                        continue;
                    }
                    for (e, have) in expects.iter().zip(f1.leaves.iter()) {
                        let ok = match e {
                            Expect::Any => true,
                            Expect::Broken => matches!(have, Leaf::Broken(_)),
                            Expect::Exact(w) => canon(w) == canon(have),
                        };
                        if !ok {
                            d.push(DiffLine { facet: "cf.formula".into(), at: format!("{si}#{k}.{j}"), expected: format!("{e:?} (rule formula {text})"), actual: format!("{have:?} (rule formula {post_text})") });
                        }
                    }
                }
            }
        }
    }
    (d, n)
}

impl Oracle for Structural {
    fn init(&mut self, _w: &World) {}

    fn before(&mut self, w: &World, ev: &Ev) {
        self.pre = if self.wants(ev) || matches!(ev, Ev::Undo) && self.focus == Focus::Meta { Some(Structural::capture(w)) } else { None };
    }

    fn after(&mut self, w: &mut World, ev: &Ev, res: &StepRes, idx: usize) -> Verdict {
        let kind = ev.kind();
        if let Some(p) = &res.panic {
            if self.wants(ev) {
                return Verdict::Violation(Violation::simple("panic", idx, kind, "panic", p.clone()));
            }
            return Verdict::Abandon(Abandon(format!("panic in {kind}: {p}")));
        }
        let pending = std::mem::take(&mut self.cleared_links);
        if self.focus == Focus::Meta && matches!(ev, Ev::Undo) && res.result.is_ok() && !pending.is_empty() {
            let post = snapshot(&w.primary);
            let mut d = Vec::new();
            for (k, v) in &pending {
                self.meta_checked += 1;
                if post.get(k) != Some(v) {
                    d.push(DiffLine { facet: "link".into(), at: k.trim_start_matches("link@").to_string(), expected: format!("{v} (removed by the clear that was undone)"), actual: post.get(k).cloned().unwrap_or_else(|| "<absent>".into()) });
                }
            }
            if !d.is_empty() {
                return Verdict::Violation(Violation::from_diff("undo-restores-link", idx, idx, kind, d, "undo of a clear did not bring the link back".into()));
            }
            return Verdict::Ok;
        }
        let pre = match self.pre.take() {
            Some(p) => p,
            None => return Verdict::Ok,
        };
        if res.result.is_err() || !self.wants(ev) {
            return Verdict::Ok;
        }
        if pre.stale || w.primary.stale {
            self.skipped_stale += 1;
            return Verdict::Ok;
        }
        let post = snapshot(&w.primary);
        let model = w.primary.model();
        let mut diffs: Vec<DiffLine> = Vec::new();
        let oracle_name;
        match (self.focus, ev) {
            (Focus::Insert | Focus::Meta, Ev::InsertRows { sheet, row, n }) | (Focus::Insert | Focus::Meta, Ev::InsertCols { sheet, col: row, n }) => {
                let rows = matches!(ev, Ev::InsertRows { .. });
                let op = Op::Ins { sheet: *sheet, rows, p: *row, k: *n };
                oracle_name = "insert-displaces";
                self.run_axis(&pre, &op, &post, model, &mut diffs);
            }
            (Focus::Delete | Focus::Meta, Ev::DeleteRows { sheet, row, n }) | (Focus::Delete | Focus::Meta, Ev::DeleteCols { sheet, col: row, n }) => {
                let rows = matches!(ev, Ev::DeleteRows { .. });
                let op = Op::Del { sheet: *sheet, rows, p: *row, k: *n };
                oracle_name = "delete-displaces";
                self.run_axis(&pre, &op, &post, model, &mut diffs);
            }
            (Focus::Move | Focus::Meta, Ev::MoveRows { sheet, row, n, delta }) | (Focus::Move | Focus::Meta, Ev::MoveCols { sheet, col: row, n, delta }) => {
                let rows = matches!(ev, Ev::MoveRows { .. });
                oracle_name = "move-permutes";
                // the session widens the offset by the hidden lines it jumps over: any
                // offset between delta and delta +- (hidden lines on the way) is accepted,
                // provided the whole post-state is that permutation of the pre-state
                let (p, n, d) = (*row, *n, *delta);
                if d == 0 {
                    return Verdict::Ok;
                }
                let reach = 6;
                let (lo, hi) = if d > 0 { (p + n, p + n + d + reach) } else { ((p + d - reach).max(1), p - 1) };
                let h = count_hidden_between(&pre, *sheet, rows, lo, hi);
                let mut best: Option<Vec<DiffLine>> = None;
                let mut agg = (0u64, 0u64, 0u64, 0u64, 0u64);
                for extra in 0..=h {
                    let dd = if d > 0 { d + extra } else { d - extra };
                    if p + dd < 1 || p + n - 1 + dd > last_of(rows) {
                        continue;
                    }
                    let op = Op::Mov { sheet: *sheet, rows, p, n, d: dd };
                    let mut out = check_op(&pre, &op, &post, model, true, true);
                    if self.focus == Focus::Meta {
                        out.diff.retain(|l| l.facet == "link");
                        let (cd, cn) = check_cf(&pre, &op, model);
                        out.diff.extend(cd);
                        self.meta_checked += cn;
                    } else {
                        out.diff.extend(line_descriptors(&pre.snap, &post, &op));
                    }
                    agg = (out.cells, out.leaves, out.unconstrained, out.values, out.ineligible);
                    let better = match &best {
                        None => true,
                        Some(b) => out.diff.len() < b.len(),
                    };
                    if better {
                        best = Some(out.diff);
                    }
                    if best.as_ref().map(|b| b.is_empty()).unwrap_or(false) {
                        break;
                    }
                }
                self.cells_mapped += agg.0;
                self.leaves_checked += agg.1;
                self.leaves_unconstrained += agg.2;
                self.values_compared += agg.3;
                self.values_ineligible += agg.4;
                self.ops_checked += 1;
                diffs = best.unwrap_or_default();
            }
            (Focus::InsDel, Ev::InsertThenDelete { sheet, rows, at: p, n }) => {
                oracle_name = "insert-delete-identity";
                // precondition: the insertion pushes nothing off the grid
                let last = last_of(*rows);
                let limit = last - *n;
                let mut pushes = false;
                for pos in cell_positions(&pre.snap) {
                    if pos.0 == *sheet && (if *rows { pos.1 } else { pos.2 }) > limit {
                        pushes = true;
                    }
                }
                for (pos, node) in &pre.forms {
                    for l in flat(node, (pos.1, pos.2)).leaves {
                        let (s, xs): (u32, Vec<i32>) = match l {
                            Leaf::Ref { sheet, r, c, .. } => (sheet, vec![if *rows { r } else { c }]),
                            Leaf::Range { sheet, r1, c1, r2, c2, ar1, ar2, ac1, ac2, .. } => {
                                let (a, b, abs) = if *rows { (r1, r2, ar1 && ar2) } else { (c1, c2, ac1 && ac2) };
                                if a.min(b) == 1 && a.max(b) == last && abs {
                                    (sheet, vec![])
                                } else {
                                    (sheet, vec![a, b])
                                }
                            }
                            Leaf::Broken(_) => (0, vec![]),
                        };
                        if s == *sheet && xs.iter().any(|x| *x > limit && *x >= *p) {
                            pushes = true;
                        }
                    }
                }
                for k in pre.snap.keys() {
                    // descriptors, links, conditional formats near the edge: leave the case alone
                    let f = crate::snap::facet_of(k);
                    if (f.starts_with("row.") && *rows) || (f.starts_with("col.") && !*rows) {
                        let idx_s = k.rsplit('!').next().unwrap_or("");
                        let line: i32 = idx_s.trim_matches(|c| c == '[' || c == ']').split('-').last().and_then(|x| x.split('#').next()).and_then(|x| x.parse().ok()).unwrap_or(0);
                        if line > limit && k.contains(&format!("@{sheet}!")) {
                            pushes = true;
                        }
                    }
                    if f == "cf" && k.starts_with(&format!("cf@{sheet}#")) {
                        if let Some(v) = pre.snap.get(k) {
                            let range = v.strip_prefix("range=").and_then(|x| x.split(" prio=").next()).unwrap_or("");
                            for part in range.split_whitespace() {
                                if let Some((a, b)) = parse_a1_range(part) {
                                    let hi = if *rows { a.0.max(b.0) } else { a.1.max(b.1) };
                                    if hi > limit {
                                        pushes = true;
                                    }
                                }
                            }
                        }
                        // rule formulas may be pushed as well: conservative
                        if pre.cf_nodes.iter().any(|((s, _), v)| *s == *sheet && v.iter().any(|(_, n, h)| flat(n, *h).leaves.iter().any(|l| match l {
                            Leaf::Ref { r, c, .. } => (if *rows { *r } else { *c }) > limit,
                            Leaf::Range { r1, c1, r2, c2, .. } => (if *rows { (*r1).max(*r2) } else { (*c1).max(*c2) }) > limit && !((if *rows { (*r1).min(*r2) } else { (*c1).min(*c2) }) == 1 && (if *rows { (*r1).max(*r2) } else { (*c1).max(*c2) }) == last),
                            _ => false,
                        }))) {
                            pushes = true;
                        }
                    }
                }
                if pushes {
                    self.skipped_precondition += 1;
                    return Verdict::Ok;
                }
                self.ops_checked += 1;
                let keep = |f: &str| !matches!(f, "wb.name" | "wb.locale" | "wb.tz" | "wb.theme");
                let a = crate::snap::restrict(&pre.snap, keep);
                let b = crate::snap::restrict(&post, keep);
                diffs = crate::snap::diff(&a, &b);
            }
            (Focus::Clip | Focus::Meta, Ev::CopyPaste { src_sheet, r0, c0, r1, c1, dst_sheet, dr, dc, cut: true }) => {
                oracle_name = "cut-moves";
                let op = Op::Cut { ss: *src_sheet, r0: *r0, c0: *c0, r1: *r1, c1: *c1, ds: *dst_sheet, dr: *dr, dc: *dc };
                if (*dr, *dc, *dst_sheet) == (*r0, *c0, *src_sheet) {
                    return Verdict::Ok;
                }
                self.run_axis(&pre, &op, &post, model, &mut diffs);
                // The session clamps the copied range to the used range of the sheet, so the
                // area it moves can be smaller than the selection. When that alone explains
                // the differences the violation says so (one root cause, one known finding).
                if !diffs.is_empty() {
                    let (mr, mc) = pre.dims.get(*src_sheet as usize).copied().unwrap_or((1, 1));
                    let (cr1, cc1) = ((*r1).min(mr).max(*r0), (*c1).min(mc).max(*c0));
                    if (cr1, cc1) != (*r1, *c1) {
                        let clamped = Op::Cut { ss: *src_sheet, r0: *r0, c0: *c0, r1: cr1, c1: cc1, ds: *dst_sheet, dr: *dr, dc: *dc };
                        let mut d2 = Vec::new();
                        self.ops_checked -= 1;
                        self.run_axis(&pre, &clamped, &post, model, &mut d2);
                        if d2.is_empty() {
                            return Verdict::Violation(Violation::from_diff(
                                oracle_name,
                                idx,
                                idx,
                                kind,
                                diffs,
                                format!("the state after the cut differs from the reference model applied to the selection {}; it agrees with the model applied to the selection clamped to the used range of the sheet ({}): explained by the clamping of the cut area", a1_range((*r0, *c0), (*r1, *c1)), a1_range((*r0, *c0), (cr1, cc1))),
                            ));
                        }
                        diffs = d2;
                    }
                }
            }
            (Focus::Clip, Ev::CopyPaste { src_sheet, r0, c0, r1, c1, dst_sheet, dr, dc, cut: false }) => {
                oracle_name = "copy-translates";
                self.ops_checked += 1;
                let post_forms = formulas_of(model);
                for r in *r0..=*r1 {
                    for c in *c0..=*c1 {
                        let p = (*src_sheet, r, c);
                        let q = (*dst_sheet, r - r0 + dr, c - c0 + dc);
                        // a source cell the paste itself overwrote is not a witness
                        let overwritten = *src_sheet == *dst_sheet && r >= *dr && r <= dr + (r1 - r0) && c >= *dc && c <= dc + (c1 - c0);
                        let node = match pre.forms.get(&p) {
                            Some(n) => n,
                            None => continue,
                        };
                        let _ = overwritten;
                        let kind = get(&pre.snap, "cell.kind", p).cloned().unwrap_or_default();
                        if kind != "formula" {
                            continue;
                        }
                        let post_node = match post_forms.get(&q) {
                            Some(n) => n,
                            None => {
                                if q.1 <= LAST_ROW && q.2 <= LAST_COL {
                                    diffs.push(DiffLine { facet: "cell.kind".into(), at: at(q), expected: format!("formula (copy of {})", at(p)), actual: get(&post, "cell.kind", q).cloned().unwrap_or_else(|| "<absent>".into()) });
                                }
                                continue;
                            }
                        };
                        // the stored form is relative (R1C1): a copy is the same tree, except
                        // leaves whose shifted target leaves the grid
                        let f0 = flat(node, (p.1, p.2));
                        let f1 = flat(post_node, (q.1, q.2));
                        if f0.opaque {
                            continue;
                        }
                        if f0.shape != f1.shape || f0.leaves.len() != f1.leaves.len() {
                            diffs.push(DiffLine { facet: "formula.shape".into(), at: at(q), expected: format!("{} (copy of {})", f0.shape, at(p)), actual: f1.shape });
                            continue;
                        }
                        let (rd, cd) = (q.1 - p.1, q.2 - p.2);
                        for (k, (l0, l1)) in f0.leaves.iter().zip(f1.leaves.iter()).enumerate() {
                            self.leaves_checked += 1;
                            let sh = |abs: bool, x: i32, d: i32| if abs { x } else { x + d };
                            let want = match l0 {
                                Leaf::Ref { sheet, named, ar, ac, r, c } => {
                                    let (r2, c2) = (sh(*ar, *r, rd), sh(*ac, *c, cd));
                                    // a sheet-less reference pasted on another sheet reads that sheet
                                    let s2 = if !*named && *sheet == p.0 { q.0 } else { *sheet };
                                    if r2 < 1 || r2 > LAST_ROW || c2 < 1 || c2 > LAST_COL {
                                        None
                                    } else {
                                        Some(Leaf::Ref { sheet: s2, named: *named, ar: *ar, ac: *ac, r: r2, c: c2 })
                                    }
                                }
                                Leaf::Range { sheet, named, ar1, ac1, r1, c1, ar2, ac2, r2, c2 } => {
                                    let (a1, b1, a2, b2) = (sh(*ar1, *r1, rd), sh(*ac1, *c1, cd), sh(*ar2, *r2, rd), sh(*ac2, *c2, cd));
                                    let s2 = if !*named && *sheet == p.0 { q.0 } else { *sheet };
                                    if a1 < 1 || a2 < 1 || b1 < 1 || b2 < 1 || a1 > LAST_ROW || a2 > LAST_ROW || b1 > LAST_COL || b2 > LAST_COL {
                                        None
                                    } else {
                                        Some(Leaf::Range { sheet: s2, named: *named, ar1: *ar1, ac1: *ac1, r1: a1, c1: b1, ar2: *ar2, ac2: *ac2, r2: a2, c2: b2 })
                                    }
                                }
                                Leaf::Broken(_) => None,
                            };
                            let ok = match &want {
                                None => matches!(l1, Leaf::Broken(_)),
                                Some(w) => canon(w) == canon(l1),
                            };
                            if !ok {
                                diffs.push(DiffLine { facet: "formula.leaf".into(), at: format!("{}#{k}", at(q)), expected: format!("{want:?} (copy of {l0:?} in {})", at(p)), actual: format!("{l1:?}") });
                            }
                        }
                    }
                }
            }
            (Focus::Sheet, Ev::RenameSheet { sheet, name }) => {
                oracle_name = "rename-preserves";
                self.ops_checked += 1;
                let post_forms = formulas_of(model);
                for (p, node) in &pre.forms {
                    let post_node = match post_forms.get(p) {
                        Some(n) => n,
                        None => {
                            diffs.push(DiffLine { facet: "cell.kind".into(), at: at(*p), expected: "formula".into(), actual: "<no formula>".into() });
                            continue;
                        }
                    };
                    // (a defined-name leaf carries the definition of the name, which the
                    // rename rewrites when it names the sheet: not part of this formula)
                    let want = lean_left(&strip_name_definitions(&rename_in(node, *sheet, name)));
                    let post_node = &lean_left(&strip_name_definitions(post_node));
                    self.leaves_checked += 1;
                    // a reference to a sheet that did not exist comes alive when a sheet takes that name
                    let wakes = format!("{node:?}").to_lowercase().contains(&format!("sheet_name: some({:?})", name.to_lowercase()));
                    if &want != post_node && !(wakes && format!("{node:?}").contains("Wrong")) {
                        diffs.push(DiffLine {
                            facet: "formula.tree".into(),
                            at: at(*p),
                            expected: format!("{}", ironcalc_base::expressions::parser::stringify::to_rc_format(&want)),
                            actual: format!("{}", ironcalc_base::expressions::parser::stringify::to_rc_format(post_node)),
                        });
                    }
                }
                self.sheet_values(&pre, &post, &mut diffs, |s| Some(s));
            }
            (Focus::Sheet, Ev::MoveSheet { from, to }) => {
                oracle_name = "move-sheet-preserves";
                self.ops_checked += 1;
                let (from, to) = (*from, *to);
                let n = pre.nsheets as u32;
                if from >= n || to >= n {
                    return Verdict::Ok;
                }
                let map = move |s: u32| -> Option<u32> {
                    if s == from {
                        Some(to)
                    } else if from < to && s > from && s <= to {
                        Some(s - 1)
                    } else if to < from && s >= to && s < from {
                        Some(s + 1)
                    } else {
                        Some(s)
                    }
                };
                self.sheet_values(&pre, &post, &mut diffs, map);
            }
            (Focus::Sheet, Ev::DuplicateSheet { sheet }) => {
                oracle_name = "duplicate-preserves";
                self.ops_checked += 1;
                // the copy is inserted right after its source
                let src = *sheet;
                let map = move |s: u32| -> Option<u32> { Some(if s > src { s + 1 } else { s }) };
                self.sheet_values(&pre, &post, &mut diffs, map);
                // formulas on the copy: same typed value as on the source
                let tainted = self.tainted(&pre);
                for (i, u) in pre.units.iter().enumerate() {
                    if u.sheet != src || tainted.contains(&i) {
                        continue;
                    }
                    let a = get(&pre.snap, "cell.value", (src, u.row, u.col));
                    let b = get(&post, "cell.value", (src + 1, u.row, u.col));
                    self.values_compared += 1;
                    if a != b {
                        diffs.push(DiffLine {
                            facet: "formula.value".into(),
                            at: at((src + 1, u.row, u.col)),
                            expected: format!("{} (value on the source sheet)", a.cloned().unwrap_or_default()),
                            actual: b.cloned().unwrap_or_else(|| "<absent>".into()),
                        });
                    }
                }
            }
            (Focus::Meta, Ev::ClearContents { a }) | (Focus::Meta, Ev::ClearAll { a }) => {
                oracle_name = "clear-removes-link";
                self.ops_checked += 1;
                let inside = |p: Pos| p.0 == a.sheet && p.1 >= a.row && p.1 < a.row + a.height && p.2 >= a.column && p.2 < a.column + a.width;
                for k in post.keys() {
                    if let Some(p) = k.strip_prefix("link@").and_then(deps::parse_at) {
                        if inside(p) {
                            diffs.push(DiffLine { facet: "link".into(), at: at(p), expected: "<absent> (content cleared)".into(), actual: post.get(k).cloned().unwrap_or_default() });
                        }
                    }
                }
                if w.primary.lens().0 > 0 {
                    self.cleared_links = pre.snap.iter().filter(|(k, _)| k.strip_prefix("link@").and_then(deps::parse_at).map(inside).unwrap_or(false)).map(|(k, v)| (k.clone(), v.clone())).collect();
                }
                self.meta_checked += 1;
            }
            (Focus::Meta, Ev::Input { sheet, row, col, text }) if text.is_empty() => {
                oracle_name = "clear-removes-link";
                self.ops_checked += 1;
                if let Some(v) = post.get(&format!("link@{}", at((*sheet, *row, *col)))) {
                    diffs.push(DiffLine { facet: "link".into(), at: at((*sheet, *row, *col)), expected: "<absent> (content cleared)".into(), actual: v.clone() });
                }
                self.meta_checked += 1;
            }
            _ => return Verdict::Ok,
        }
        if diffs.is_empty() {
            return Verdict::Ok;
        }
        Verdict::Violation(Violation::from_diff(oracle_name, idx, idx, kind, diffs, "the state after the operation differs from the reference displacement model applied to the state before it".into()))
    }

    fn exercised(&self) -> u64 {
        self.ops_checked
    }
    fn counters(&self) -> Vec<(String, u64)> {
        vec![
            ("operations_checked_against_the_model".into(), self.ops_checked),
            ("cells_mapped".into(), self.cells_mapped),
            ("reference_leaves_compared".into(), self.leaves_checked),
            ("reference_leaves_left_unconstrained".into(), self.leaves_unconstrained),
            ("formula_values_compared".into(), self.values_compared),
            ("formula_values_not_eligible".into(), self.values_ineligible),
            ("links_and_cf_parts_compared".into(), self.meta_checked),
            ("skipped_unevaluated_state".into(), self.skipped_stale),
            ("skipped_precondition_not_met".into(), self.skipped_precondition),
        ]
    }
}

impl Structural {
    fn run_axis(&mut self, pre: &Pre, op: &Op, post: &Snap, model: &Model, diffs: &mut Vec<DiffLine>) {
        let meta = self.focus == Focus::Meta;
        let mut out = check_op(pre, op, post, model, !meta, true);
        if meta {
            out.diff.retain(|l| l.facet == "link");
            let (cd, cn) = check_cf(pre, op, model);
            out.diff.extend(cd);
            self.meta_checked += cn + 1;
        }
        self.ops_checked += 1;
        self.cells_mapped += out.cells;
        self.leaves_checked += out.leaves;
        self.leaves_unconstrained += out.unconstrained;
        self.values_compared += out.values;
        self.values_ineligible += out.ineligible;
        diffs.extend(out.diff);
    }

    fn tainted(&self, pre: &Pre) -> HashSet<usize> {
        let mut seeds: HashSet<usize> = deps::on_cycle(&pre.units);
        for (i, u) in pre.units.iter().enumerate() {
            if u.is_array || u.is_dynamic || u.opaque {
                seeds.insert(i);
            }
        }
        deps::downstream(&pre.units, &seeds)
    }

    /// typed values of all (eligible) formulas are unchanged by a sheet operation
    fn sheet_values(&mut self, pre: &Pre, post: &Snap, diffs: &mut Vec<DiffLine>, map: impl Fn(u32) -> Option<u32>) {
        let tainted = self.tainted(pre);
        for (i, u) in pre.units.iter().enumerate() {
            if tainted.contains(&i) {
                self.values_ineligible += 1;
                continue;
            }
            let s2 = match map(u.sheet) {
                Some(s) => s,
                None => continue,
            };
            let a = get(&pre.snap, "cell.value", (u.sheet, u.row, u.col));
            let b = get(post, "cell.value", (s2, u.row, u.col));
            self.values_compared += 1;
            if a != b {
                diffs.push(DiffLine {
                    facet: "formula.value".into(),
                    at: at((s2, u.row, u.col)),
                    expected: format!("{} (value before, on sheet {})", a.cloned().unwrap_or_default(), u.sheet),
                    actual: b.cloned().unwrap_or_else(|| "<absent>".into()),
                });
            }
        }
        let _ = &pre.sheet_names;
    }
}

fn strip_name_definitions(node: &Node) -> Node {
    use Node::*;
    let mut n = node.clone();
    fn walk(n: &mut Node) {
        match n {
            DefinedNameKind(d) => d.2 = String::new(),
            OpRangeKind { left, right }
            | OpConcatenateKind { left, right }
            | OpSumKind { left, right, .. }
            | OpProductKind { left, right, .. }
            | OpPowerKind { left, right }
            | CompareKind { left, right, .. } => {
                walk(left);
                walk(right);
            }
            UnaryKind { right, .. } => walk(right),
            FunctionKind { args, .. } | NamedFunctionKind { args, .. } => args.iter_mut().for_each(walk),
            LambdaDefKind { body, .. } => walk(body),
            LambdaCallKind { lambda, args } => {
                walk(lambda);
                args.iter_mut().for_each(walk);
            }
            ImplicitIntersection { child, .. } | SpillRangeOperator { child } => walk(child),
            _ => {}
        }
    }
    walk(&mut n);
    n
}

/// the tree with the leaves that name sheet `index` renamed, everything else untouched
fn rename_in(node: &Node, index: u32, new_name: &str) -> Node {
    use Node::*;
    let mut n = node.clone();
    fn walk(n: &mut Node, index: u32, new_name: &str) {
        match n {
            ReferenceKind { sheet_name, sheet_index, .. } | RangeKind { sheet_name, sheet_index, .. } => {
                if *sheet_index == index && sheet_name.is_some() {
                    *sheet_name = Some(new_name.to_string());
                }
            }
            OpRangeKind { left, right }
            | OpConcatenateKind { left, right }
            | OpSumKind { left, right, .. }
            | OpProductKind { left, right, .. }
            | OpPowerKind { left, right }
            | CompareKind { left, right, .. } => {
                walk(left, index, new_name);
                walk(right, index, new_name);
            }
            UnaryKind { right, .. } => walk(right, index, new_name),
            FunctionKind { args, .. } | NamedFunctionKind { args, .. } => {
                for a in args {
                    walk(a, index, new_name);
                }
            }
            LambdaDefKind { body, .. } => walk(body, index, new_name),
            LambdaCallKind { lambda, args } => {
                walk(lambda, index, new_name);
                for a in args {
                    walk(a, index, new_name);
                }
            }
            ImplicitIntersection { child, .. } | SpillRangeOperator { child } => walk(child, index, new_name),
            _ => {}
        }
    }
    walk(&mut n, index, new_name);
    n
}

/// row / column descriptors follow their lines under a move (C15)
fn line_descriptors(pre: &Snap, post: &Snap, op: &Op) -> Vec<DiffLine> {
    let mut d = Vec::new();
    let (sheet, rows) = match op.axis() {
        Some(x) => x,
        None => return d,
    };
    let facets: &[&str] = if rows { &["row.height", "row.hidden", "row.style"] } else { &["col.width", "col.hidden", "col.style"] };
    let prefix_ok = |k: &str| facets.iter().any(|f| k.starts_with(&format!("{f}@{sheet}!")));
    // run-length entries cannot be mapped line by line: leave the case alone
    if pre.keys().chain(post.keys()).any(|k| prefix_ok(k) && (k.contains('[') || k.contains('#'))) {
        return d;
    }
    let mut want: BTreeMap<String, String> = BTreeMap::new();
    for (k, v) in pre.iter().filter(|(k, _)| prefix_ok(k)) {
        let (f, idx) = match k.split_once('!') {
            Some((f, i)) => (f, i),
            None => continue,
        };
        if let Ok(x) = idx.parse::<i32>() {
            if let Some(y) = op.line(x) {
                want.insert(format!("{f}!{y}"), v.clone());
            }
        }
    }
    let have: BTreeMap<String, String> = post.iter().filter(|(k, _)| prefix_ok(k)).map(|(k, v)| (k.clone(), v.clone())).collect();
    for (k, v) in &want {
        if have.get(k) != Some(v) {
            d.push(DiffLine { facet: crate::snap::facet_of(k).to_string(), at: k.split_once('@').map(|x| x.1).unwrap_or(k).to_string(), expected: v.clone(), actual: have.get(k).cloned().unwrap_or_else(|| "<default>".into()) });
        }
    }
    for (k, v) in &have {
        if !want.contains_key(k) {
            d.push(DiffLine { facet: crate::snap::facet_of(k).to_string(), at: k.split_once('@').map(|x| x.1).unwrap_or(k).to_string(), expected: "<default>".into(), actual: v.clone() });
        }
    }
    d
}
