//! One simulated run: generation mode (PRNG decides everything) and replay
//! mode (recorded events verbatim, no PRNG).

use crate::ev::{Ev, Rec};
use crate::gen::{self, Profile, View};
use crate::oracle::{Oracle, Verdict, Violation};
use crate::rng::{Fnv, Rng};
use crate::world::{FaultCounters, Init, World};
use serde::{Deserialize, Serialize};

/// per-run schedule parameters for world events (swarm-drawn)
#[derive(Clone, Debug, Default)]
pub struct Sched {
    pub p_flush: f64,
    pub p_deliver: f64,
    pub p_save: f64,
    pub p_restart_clean: f64,
    pub p_restart_dirty: f64,
    pub p_xlsx_restart: f64,
    pub p_tick: f64,
    pub p_lang: f64,
    pub p_pause: f64,
    pub p_bad: f64,
    pub p_probe: f64,
}

pub struct Plan {
    pub init: Init,
    pub profile: Profile,
    pub sched: Sched,
}

#[derive(Serialize, Deserialize, Clone, Debug)]
pub struct ReplayFile {
    pub format: u32,
    pub property: String,
    pub tier: String,
    pub verif_seed: u64,
    pub run_index: u64,
    pub run_seed: u64,
    pub config: Init,
    pub events: Vec<Rec>,
    pub violation: Violation,
    pub minimised_from: usize,
}

pub struct Outcome {
    pub trace: Vec<Rec>,
    pub violation: Option<Violation>,
    pub abandoned: Option<String>,
    pub exercised: u64,
    pub counters: Vec<(String, u64)>,
    pub stats: FaultCounters,
    pub kinds_hash: u64,
    pub final_hash: u64,
    pub state_hashes: Vec<u64>,
    pub panics: Vec<String>,
    pub sim_ms: u64,
    pub log_hash: u64,
    pub harness_error: Option<String>,
}

pub type Special = dyn FnMut(&mut Rng, &World, &Profile) -> Option<(Ev, Option<String>)>;

/// Draws the next event of a generated run.
fn draw_event(rng: &mut Rng, w: &World, plan: &Plan, special: &mut Option<Box<Special>>) -> (Ev, Option<String>) {
    let s = &plan.sched;
    let p = &plan.profile;
    // world events first: they are cheap decisions
    if !w.followers.is_empty() {
        if rng.chance(s.p_flush) {
            return (Ev::Flush, None);
        }
        if rng.chance(s.p_deliver) {
            let i = rng.below(w.followers.len() as u64) as usize;
            return (Ev::Deliver { follower: i }, None);
        }
    }
    if rng.chance(s.p_save) {
        return (Ev::Save, None);
    }
    if rng.chance(s.p_restart_clean) {
        return (Ev::Restart { dirty: false }, None);
    }
    if w.store.is_some() && rng.chance(s.p_restart_dirty) {
        return (Ev::Restart { dirty: true }, None);
    }
    if rng.chance(s.p_xlsx_restart) {
        return (Ev::XlsxRestart, None);
    }
    if rng.chance(s.p_tick) {
        return (Ev::Tick { ms: *rng.pick(&[1u64, 1000, 60_000, 86_400_000]) }, None);
    }
    if rng.chance(s.p_lang) {
        return (Ev::SetLanguage { lang: crate::node::LANGS[rng.below(5) as usize].to_string() }, None);
    }
    if rng.chance(s.p_pause) {
        return match (w.primary.paused, rng.below(3)) {
            (false, _) => (Ev::Pause, None),
            (true, 0) => (Ev::Evaluate, None),
            (true, _) => (Ev::Resume, None),
        };
    }
    if let Some(sp) = special {
        if rng.chance(s.p_probe.max(s.p_bad)) {
            if let Some(e) = sp(rng, w, p) {
                return e;
            }
        }
    }
    let v = View::of(&w.primary);
    if rng.chance(p.p_undo) && (v.can_undo || rng.chance(0.1)) {
        // guard of KF "undo of a row/column deletion": most runs explore past it
        let top = w.undo_kinds.last().copied().unwrap_or("");
        let guarded = p.guards && matches!(top, "DeleteRows" | "DeleteCols" | "InsertThenDelete");
        if !guarded {
            return (Ev::Undo, None);
        }
    }
    if rng.chance(p.p_redo) && (v.can_redo || rng.chance(0.1)) {
        return (Ev::Redo, None);
    }
    (gen::next_user_event(rng, p, &v), None)
}

fn log_event(h: &mut Fnv, ev: &Ev, result: &str, w: &World) {
    h.write_str(ev.kind());
    h.write_str(&serde_json::to_string(ev).unwrap_or_default());
    h.write_str(result);
    h.write_u64(crate::snap::hash(&crate::snap::snapshot(&w.primary)));
    for f in &w.followers {
        h.write_u64(crate::snap::hash(&crate::snap::snapshot(&f.node)));
    }
}

fn slow_report() -> bool {
    std::env::var("VERIF_TIMING").is_ok()
}

pub struct RunOpts {
    /// hash every event into `log_hash` (determinism self-test); costs a snapshot per event
    pub log: bool,
}

fn execute(
    world: &mut World,
    oracle: &mut dyn Oracle,
    mut next: impl FnMut(&World, usize) -> Option<(Ev, Option<String>)>,
    opts: &RunOpts,
) -> Outcome {
    let mut trace: Vec<Rec> = Vec::new();
    let mut violation = None;
    let mut abandoned = None;
    let mut panics = Vec::new();
    let mut kinds = Fnv::default();
    let mut log = Fnv::default();
    let mut state_hashes = Vec::new();
    let start_ms = world.now_ms;
    oracle.init(world);
    let mut idx = 0usize;
    while let Some((ev, fault)) = next(world, idx) {
        oracle.before(world, &ev);
        let t_ev = std::time::Instant::now();
        if std::env::var("VERIF_ECHO").is_ok() {
            // debugging aid for runs that never come back
            eprintln!("event #{idx}: {}", serde_json::to_string(&ev).unwrap_or_default());
        }
        let res = world.step(&ev);
        if slow_report() && t_ev.elapsed().as_millis() > 50 {
            eprintln!("slow event #{idx}: {} ms: {}", t_ev.elapsed().as_millis(), serde_json::to_string(&ev).unwrap_or_default());
        }
        let result = match (&res.panic, &res.result) {
            (Some(p), _) => format!("panic: {p}"),
            (None, Ok(())) => "ok".to_string(),
            (None, Err(e)) => format!("err: {e}"),
        };
        if let Some(p) = &res.panic {
            panics.push(format!("{}: {p}", ev.kind()));
        }
        kinds.write_str(ev.kind());
        if opts.log {
            log_event(&mut log, &ev, &result, world);
        }
        trace.push(Rec { t_ms: world.now_ms, ev: ev.clone(), fault, result });
        let verdict = oracle.after(world, &ev, &res, idx);
        state_hashes.push(oracle.last_hash());
        match verdict {
            Verdict::Ok => {}
            Verdict::Violation(mut v) => {
                v.tags = crate::tags::compute(world, &trace, &v);
                violation = Some(v);
                break;
            }
            Verdict::Abandon(a) => {
                abandoned = Some(a.0);
                break;
            }
        }
        if res.panic.is_some() {
            // a node that panicked is not driven any further
            abandoned = Some(format!("panic: {}", panics.last().cloned().unwrap_or_default()));
            break;
        }
        idx += 1;
    }
    if violation.is_none() && abandoned.is_none() {
        match oracle.finish(world, idx) {
            Verdict::Ok => {}
            Verdict::Violation(mut v) => {
                v.tags = crate::tags::compute(world, &trace, &v);
                violation = Some(v)
            }
            Verdict::Abandon(a) => abandoned = Some(a.0),
        }
    }
    Outcome {
        trace,
        violation,
        abandoned,
        exercised: oracle.exercised(),
        counters: oracle.counters(),
        stats: world.stats.clone(),
        kinds_hash: kinds.finish(),
        final_hash: oracle.last_hash(),
        state_hashes,
        panics,
        sim_ms: world.now_ms - start_ms,
        log_hash: log.finish(),
        harness_error: None,
    }
}

pub fn harness_error(msg: String) -> Outcome {
    Outcome {
        trace: vec![],
        violation: None,
        abandoned: None,
        exercised: 0,
        counters: vec![],
        stats: FaultCounters::default(),
        kinds_hash: 0,
        final_hash: 0,
        state_hashes: vec![],
        panics: vec![],
        sim_ms: 0,
        log_hash: 0,
        harness_error: Some(msg),
    }
}

pub fn run_generated(
    plan: &Plan,
    rng: &mut Rng,
    oracle: &mut dyn Oracle,
    mut special: Option<Box<Special>>,
    opts: &RunOpts,
) -> Outcome {
    let mut world = match World::new(&plan.init) {
        Ok(w) => w,
        Err(e) => return harness_error(format!("world init: {e}")),
    };
    let len = plan.profile.len;
    execute(
        &mut world,
        oracle,
        |w, idx| {
            if idx >= len {
                None
            } else {
                Some(draw_event(rng, w, plan, &mut special))
            }
        },
        opts,
    )
}

pub fn run_replay(init: &Init, events: &[Rec], oracle: &mut dyn Oracle, opts: &RunOpts) -> Outcome {
    let mut world = match World::new(init) {
        Ok(w) => w,
        Err(e) => return harness_error(format!("world init: {e}")),
    };
    execute(
        &mut world,
        oracle,
        |_w, idx| events.get(idx).map(|r| (r.ev.clone(), r.fault.clone())),
        opts,
    )
}
