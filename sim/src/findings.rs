//! Known findings: genuine defects recorded rather than repaired. Read-only at
//! run time. A violation matches an entry iff property and oracle are equal,
//! its culprit kind is in the entry's set, every facet kind of its diff is in
//! the entry's facet set, and the entry's regex matches its detail or at
//! least one diff line.

use crate::oracle::Violation;
use serde::{Deserialize, Serialize};

#[derive(Serialize, Deserialize, Clone, Debug)]
pub struct Finding {
    pub id: String,
    pub property: String,
    pub oracle: String,
    pub culprit_kinds: Vec<String>,
    pub facets: Vec<String>,
    pub detail_regex: String,
    pub what: String,
    #[serde(default)]
    pub witness: String,
    /// every tag listed here must be among the violation's tags; entries with
    /// tags are matched against *minimised* violations only
    #[serde(default)]
    pub requires_tags: Vec<String>,
    /// if present, *every* diff line kept in the violation must match it
    #[serde(default)]
    pub all_lines_regex: Option<String>,
    /// the same root cause shows under these properties too (same signature)
    #[serde(default)]
    pub also_properties: Vec<String>,
    /// oracles of the other properties under which it shows (`oracle` is always accepted)
    #[serde(default)]
    pub also_oracles: Vec<String>,
}

#[derive(Serialize, Deserialize, Clone, Debug, Default)]
pub struct FindingsFile {
    #[serde(default)]
    pub findings: Vec<Finding>,
    #[serde(default)]
    pub fixed: Vec<String>,
}

pub struct Findings {
    pub list: Vec<(Finding, regex::Regex, Option<regex::Regex>)>,
}

pub fn findings_path() -> String {
    std::env::var("VERIF_FINDINGS").unwrap_or_else(|_| format!("{}/known_findings.json", crate::verif_dir()))
}

impl Findings {
    pub fn load() -> Result<Findings, String> {
        let path = findings_path();
        let text = match std::fs::read_to_string(&path) {
            Ok(t) => t,
            Err(_) => return Ok(Findings { list: vec![] }),
        };
        let f: FindingsFile = serde_json::from_str(&text).map_err(|e| format!("{path}: {e}"))?;
        let mut list = Vec::new();
        for x in f.findings {
            let re = regex::Regex::new(&x.detail_regex).map_err(|e| format!("{path}: {}: {e}", x.id))?;
            let all = match &x.all_lines_regex {
                Some(r) => Some(regex::Regex::new(r).map_err(|e| format!("{path}: {}: {e}", x.id))?),
                None => None,
            };
            list.push((x, re, all));
        }
        Ok(Findings { list })
    }

    pub fn matches(&self, prop: &str, v: &Violation, minimised: bool) -> Option<&Finding> {
        for (f, re, all) in &self.list {
            if f.property != prop && !f.also_properties.iter().any(|p| p == prop) {
                continue;
            }
            if f.oracle != v.oracle && !f.also_oracles.iter().any(|o| o == &v.oracle) {
                continue;
            }
            if !f.requires_tags.is_empty() && !minimised {
                continue;
            }
            if !f.requires_tags.iter().all(|t| v.tags.iter().any(|x| x == t)) {
                continue;
            }
            if !f.culprit_kinds.iter().any(|k| k == &v.culprit_kind || k == "*") {
                continue;
            }
            if !v.facets.iter().all(|x| f.facets.iter().any(|y| y == x || y == "*")) {
                continue;
            }
            let mut hit = re.is_match(&v.detail);
            let mut all_ok = true;
            for l in &v.diff {
                let line = format!("{}@{} expected={} actual={}", l.facet, l.at, l.expected, l.actual);
                if re.is_match(&line) {
                    hit = true;
                }
                if let Some(a) = all {
                    if !a.is_match(&line) {
                        all_ok = false;
                    }
                }
            }
            if !all_ok {
                continue;
            }
            if hit {
                return Some(f);
            }
        }
        None
    }
}
