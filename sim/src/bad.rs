//! C04 fault table: operation kind × invalid-argument class (DESIGN Appendix A).
//! `bad_op` draws one entry; the label is recorded with the event so that the
//! evidence can report how often each (kind, class) pair was injected.

use crate::ev::{Ev, A};
use crate::gen::{self, FCtx, Loc, Profile, View, LAST_COL, LAST_ROW};
use crate::rng::Rng;
use crate::world::World;
use ironcalc_base::types::{ArrayKind, Cell, Link};

pub const N_ENTRIES: u64 = 86;

fn bad_sheet(v: &View) -> u32 {
    v.nsheets() + 3
}

/// position of some CSE block (sheet, row, col, w, h) if one exists
fn find_cse(w: &World) -> Option<(u32, i32, i32, i32, i32)> {
    let wb = &w.primary.model().workbook;
    let mut found = Vec::new();
    for (i, ws) in wb.worksheets.iter().enumerate() {
        for (r, row) in &ws.sheet_data {
            for (c, cell) in row {
                if let Cell::ArrayFormula { kind: ArrayKind::Cse, r: (bw, bh), .. } = cell {
                    if *bw > 1 || *bh > 1 {
                        found.push((i as u32, *r, *c, *bw, *bh));
                    }
                }
            }
        }
    }
    found.sort();
    found.into_iter().next()
}

fn last_used(w: &World, sheet: u32) -> Option<(i32, i32)> {
    let ws = w.primary.model().workbook.worksheets.get(sheet as usize)?;
    let mut mr = 0;
    let mut mc = 0;
    for (r, row) in &ws.sheet_data {
        for c in row.keys() {
            mr = mr.max(*r);
            mc = mc.max(*c);
        }
    }
    if mr == 0 {
        None
    } else {
        Some((mr, mc))
    }
}

pub fn bad_op(rng: &mut Rng, w: &World, p: &Profile) -> Option<(Ev, Option<String>)> {
    let v = View::of(&w.primary);
    let k = rng.below(N_ENTRIES);
    bad_entry(k, rng, w, p, &v)
}

pub fn bad_entry(k: u64, rng: &mut Rng, w: &World, p: &Profile, v: &View) -> Option<(Ev, Option<String>)> {
    let loc = Loc::new(v.lang, &v.locale);
    let sh = gen::sheet(rng, v);
    let cx = FCtx { loc: &loc, v, p, host_sheet: sh };
    let ns = bad_sheet(v);
    let r = rng.range(1, 12) as i32;
    let c = rng.range(1, 8) as i32;
    let text = gen::input_text(rng, &cx);
    let badrow = *rng.pick(&[0, -1, LAST_ROW + 1]);
    let badcol = *rng.pick(&[0, -1, LAST_COL + 1]);
    let cse = find_cse(w);
    let area = |sheet: u32, row: i32, column: i32, width: i32, height: i32| A { sheet, row, column, width, height };
    let (ev, label): (Ev, &str) = match k {
        0 => (Ev::Input { sheet: ns, row: r, col: c, text }, "input/no-sheet"),
        1 => (Ev::Input { sheet: sh, row: badrow, col: c, text }, "input/bad-row"),
        2 => (Ev::Input { sheet: sh, row: r, col: badcol, text }, "input/bad-col"),
        3 => match cse {
            Some((s, ar, ac, bw, bh)) => {
                let (mr, mc) = if bw > 1 { (ar, ac + 1) } else { (ar + bh - 1, ac) };
                (Ev::Input { sheet: s, row: mr, col: mc, text }, "input/cse-member")
            }
            None => return None,
        },
        4 => (Ev::ArrayFormula { sheet: ns, row: r, col: c, w: 2, h: 2, text: "=A1:B2".into() }, "array/no-sheet"),
        5 => (Ev::ArrayFormula { sheet: sh, row: badrow, col: c, w: 2, h: 2, text: "=A1:B2".into() }, "array/bad-row"),
        6 => (Ev::ArrayFormula { sheet: sh, row: r, col: c, w: *rng.pick(&[0, -1]), h: 2, text: "=A1:B2".into() }, "array/bad-size"),
        7 => (Ev::ArrayFormula { sheet: sh, row: LAST_ROW, col: c, w: 1, h: 3, text: "=A1:A3".into() }, "array/leaves-grid"),
        8 => match cse {
            Some((s, ar, ac, _, _)) => (
                Ev::ArrayFormula { sheet: s, row: (ar - 1).max(1), col: (ac - 1).max(1), w: 2, h: 2, text: "=1+1".into() },
                "array/overlaps-cse",
            ),
            None => return None,
        },
        9 => (Ev::ClearAll { a: area(ns, r, c, 2, 2) }, "clear-all/no-sheet"),
        10 => (Ev::ClearContents { a: area(ns, r, c, 2, 2) }, "clear-contents/no-sheet"),
        11 => match cse {
            Some((s, ar, ac, _, _)) => (Ev::ClearContents { a: area(s, ar, ac, 1, 1) }, "clear-contents/cuts-cse"),
            None => return None,
        },
        12 => match cse {
            Some((s, ar, ac, _, _)) => (Ev::ClearAll { a: area(s, ar, ac, 1, 1) }, "clear-all/cuts-cse"),
            None => return None,
        },
        13 => (Ev::ClearContents { a: area(sh, badrow, c, 1, 1) }, "clear-contents/bad-row"),
        14 => (Ev::ClearFormatting { a: area(ns, r, c, 2, 2) }, "clear-formatting/no-sheet"),
        15 => (Ev::ClearFormatting { a: area(sh, r, LAST_COL, 3, 1) }, "clear-formatting/outside-grid"),
        16 => (
            Ev::Border { a: area(ns, r, c, 2, 2), kind: "All".into(), style: "thin".into(), color: "#000000".into() },
            "border/no-sheet",
        ),
        17 => (
            Ev::Border { a: area(sh, LAST_ROW, c, 1, 3), kind: "All".into(), style: "thin".into(), color: "#000000".into() },
            "border/outside-grid",
        ),
        18 => (Ev::StyleRange { a: area(ns, r, c, 1, 1), path: "font.b".into(), value: "true".into() }, "style/no-sheet"),
        19 => (Ev::StyleRange { a: area(sh, r, c, 2, 2), path: "font.nope".into(), value: "true".into() }, "style/bad-path"),
        20 => {
            let (path, value) = *rng.pick(&[
                ("font.b", "maybe"),
                ("font.size", "0"),
                ("font.size", "abc"),
                ("font.color", "#12"),
                ("alignment", "x"),
                ("alignment.horizontal", "diagonal"),
                ("fill.bg_color", "red"),
                ("font.size_delta", "-100"),
            ]);
            (Ev::StyleRange { a: area(sh, r, c, 2, 2), path: path.into(), value: value.into() }, "style/bad-value-range")
        }
        21 => (
            Ev::StyleRange { a: area(sh, 1, c, 2, LAST_ROW), path: "font.size_delta".into(), value: "-11".into() },
            "style/bad-value-full-columns",
        ),
        22 => (
            Ev::StyleRange { a: area(sh, r, 1, LAST_COL, 2), path: "font.size_delta".into(), value: "-11".into() },
            "style/bad-value-full-rows",
        ),
        23 => (
            Ev::StyleRange { a: area(sh, r, c, 3, 3), path: "font.size_delta".into(), value: "-9".into() },
            "style/partly-bad-value-range",
        ),
        24 => (Ev::InsertRows { sheet: ns, row: r, n: 1 }, "insert-rows/no-sheet"),
        25 => (Ev::InsertRows { sheet: sh, row: r, n: *rng.pick(&[0, -1]) }, "insert-rows/bad-count"),
        26 => (Ev::InsertRows { sheet: sh, row: badrow, n: 1 }, "insert-rows/bad-position"),
        27 => match last_used(w, sh) {
            Some((mr, _)) => (Ev::InsertRows { sheet: sh, row: 1, n: LAST_ROW - mr + 1 }, "insert-rows/pushes-data-off-grid"),
            None => return None,
        },
        28 => match cse {
            Some((s, ar, _, _, bh)) if bh > 1 => (Ev::InsertRows { sheet: s, row: ar + 1, n: 1 }, "insert-rows/inside-cse"),
            _ => return None,
        },
        29 => (Ev::InsertCols { sheet: ns, col: c, n: 1 }, "insert-cols/no-sheet"),
        30 => (Ev::InsertCols { sheet: sh, col: c, n: *rng.pick(&[0, -1]) }, "insert-cols/bad-count"),
        31 => (Ev::InsertCols { sheet: sh, col: badcol, n: 1 }, "insert-cols/bad-position"),
        32 => match last_used(w, sh) {
            Some((_, mc)) => (Ev::InsertCols { sheet: sh, col: 1, n: LAST_COL - mc + 1 }, "insert-cols/pushes-data-off-grid"),
            None => return None,
        },
        33 => match cse {
            Some((s, _, ac, bw, _)) if bw > 1 => (Ev::InsertCols { sheet: s, col: ac + 1, n: 1 }, "insert-cols/inside-cse"),
            _ => return None,
        },
        34 => (Ev::DeleteRows { sheet: ns, row: r, n: 1 }, "delete-rows/no-sheet"),
        35 => (Ev::DeleteRows { sheet: sh, row: r, n: *rng.pick(&[0, -1]) }, "delete-rows/bad-count"),
        36 => (Ev::DeleteRows { sheet: sh, row: badrow, n: 1 }, "delete-rows/bad-position"),
        37 => (Ev::DeleteRows { sheet: sh, row: LAST_ROW - 1, n: 5 }, "delete-rows/beyond-grid"),
        38 => match cse {
            Some((s, ar, _, _, bh)) if bh > 1 => (Ev::DeleteRows { sheet: s, row: ar + 1, n: 1 }, "delete-rows/cuts-cse"),
            _ => return None,
        },
        39 => (Ev::DeleteCols { sheet: ns, col: c, n: 1 }, "delete-cols/no-sheet"),
        40 => (Ev::DeleteCols { sheet: sh, col: c, n: *rng.pick(&[0, -1]) }, "delete-cols/bad-count"),
        41 => (Ev::DeleteCols { sheet: sh, col: badcol, n: 1 }, "delete-cols/bad-position"),
        42 => (Ev::DeleteCols { sheet: sh, col: LAST_COL - 1, n: 5 }, "delete-cols/beyond-grid"),
        43 => match cse {
            Some((s, _, ac, bw, _)) if bw > 1 => (Ev::DeleteCols { sheet: s, col: ac + 1, n: 1 }, "delete-cols/cuts-cse"),
            _ => return None,
        },
        44 => (Ev::MoveRows { sheet: ns, row: r, n: 1, delta: 1 }, "move-rows/no-sheet"),
        45 => (Ev::MoveRows { sheet: sh, row: r, n: 1, delta: -(r + 2) }, "move-rows/target-outside"),
        46 => (Ev::MoveRows { sheet: sh, row: LAST_ROW, n: 1, delta: 2 }, "move-rows/beyond-grid"),
        47 => match cse {
            Some((s, ar, _, _, bh)) if bh > 1 => (Ev::MoveRows { sheet: s, row: ar, n: 1, delta: 3 }, "move-rows/splits-cse"),
            _ => return None,
        },
        48 => (Ev::MoveCols { sheet: ns, col: c, n: 1, delta: 1 }, "move-cols/no-sheet"),
        49 => (Ev::MoveCols { sheet: sh, col: c, n: 1, delta: -(c + 2) }, "move-cols/target-outside"),
        50 => match cse {
            Some((s, _, ac, bw, _)) if bw > 1 => (Ev::MoveCols { sheet: s, col: ac, n: 1, delta: 3 }, "move-cols/splits-cse"),
            _ => return None,
        },
        51 => (Ev::ColsWidth { sheet: ns, c0: c, c1: c, w: 50.0 }, "cols-width/no-sheet"),
        52 => (Ev::ColsWidth { sheet: sh, c0: c, c1: c + 1, w: -5.0 }, "cols-width/negative"),
        53 => (Ev::ColsWidth { sheet: sh, c0: 0, c1: 2, w: 50.0 }, "cols-width/start-0"),
        54 => (Ev::ColsWidth { sheet: sh, c0: LAST_COL - 1, c1: LAST_COL + 1, w: 50.0 }, "cols-width/crosses-last-column"),
        55 => (Ev::RowsHeight { sheet: ns, r0: r, r1: r, h: 30.0 }, "rows-height/no-sheet"),
        56 => (Ev::RowsHeight { sheet: sh, r0: r, r1: r + 1, h: -5.0 }, "rows-height/negative"),
        57 => (Ev::RowsHeight { sheet: sh, r0: LAST_ROW - 1, r1: LAST_ROW + 1, h: 30.0 }, "rows-height/crosses-last-row"),
        58 => (Ev::ColsHidden { sheet: ns, c0: c, c1: c, hidden: true }, "cols-hidden/no-sheet"),
        59 => (Ev::ColsHidden { sheet: sh, c0: LAST_COL - 1, c1: LAST_COL + 1, hidden: true }, "cols-hidden/crosses-edge"),
        60 => (Ev::RowsHidden { sheet: sh, r0: LAST_ROW - 1, r1: LAST_ROW + 1, hidden: true }, "rows-hidden/crosses-edge"),
        61 => (Ev::RowsHidden { sheet: sh, r0: 0, r1: 1, hidden: rng.chance(0.5) }, "rows-hidden/start-0"),
        62 => (Ev::FrozenRows { sheet: sh, n: *rng.pick(&[-1, LAST_ROW, LAST_ROW + 5]) }, "frozen-rows/bad-count"),
        63 => (Ev::FrozenCols { sheet: sh, n: *rng.pick(&[-1, LAST_COL, LAST_COL + 5]) }, "frozen-cols/bad-count"),
        64 => (Ev::FrozenRows { sheet: ns, n: 1 }, "frozen-rows/no-sheet"),
        65 => (Ev::DeleteSheet { sheet: ns }, "delete-sheet/no-sheet"),
        66 => {
            if v.nsheets() == 1 {
                (Ev::DeleteSheet { sheet: 0 }, "delete-sheet/only-sheet")
            } else {
                return None;
            }
        }
        67 => (
            match rng.below(5) {
                0 => Ev::DuplicateSheet { sheet: ns },
                1 => Ev::HideSheet { sheet: ns },
                2 => Ev::UnhideSheet { sheet: ns },
                3 => Ev::SheetColor { sheet: ns, color: "#FF0000".into() },
                _ => Ev::GridLines { sheet: ns, show: false },
            },
            "sheet-op/no-sheet",
        ),
        68 => (Ev::SheetColor { sheet: sh, color: rng.pick(&["red", "#12", "#GGGGGG"]).to_string() }, "sheet-color/bad-colour"),
        69 => {
            let name = match rng.below(5) {
                0 => String::new(),
                1 => "x".repeat(32),
                2 => format!("a{}b", rng.pick(&['\\', '/', '*', '?', ':', '[', ']'])),
                3 => {
                    // existing name of another sheet in another case
                    let other = (sh + 1) % v.nsheets().max(1);
                    if other == sh {
                        return None;
                    }
                    let n = &v.sheets[other as usize];
                    if n.to_uppercase() == *n {
                        n.to_lowercase()
                    } else {
                        n.to_uppercase()
                    }
                }
                _ => return Some((Ev::RenameSheet { sheet: ns, name: "Ok".into() }, Some("rename/no-sheet".into()))),
            };
            (Ev::RenameSheet { sheet: sh, name }, "rename/bad-name")
        }
        70 => (
            if rng.chance(0.5) { Ev::MoveSheet { from: ns, to: 0 } } else { Ev::MoveSheet { from: 0, to: ns } },
            "move-sheet/bad-index",
        ),
        71 => {
            let name = *rng.pick(&["1abc", "a b", "A1", "R1C1", "x!y", ""]);
            (Ev::NewName { name: name.into(), scope: None, formula: "Sheet1!$A$1".into() }, "new-name/invalid-identifier")
        }
        72 => match v.names.first() {
            Some((n, s)) => {
                let n2 = if n.to_uppercase() == *n { n.to_lowercase() } else { n.to_uppercase() };
                (Ev::NewName { name: n2, scope: *s, formula: "Sheet1!$A$1".into() }, "new-name/existing")
            }
            None => return None,
        },
        73 => (Ev::NewName { name: "okname".into(), scope: Some(ns), formula: "Sheet1!$A$1".into() }, "new-name/no-scope"),
        74 => (
            Ev::NewName { name: "okname2".into(), scope: None, formula: rng.pick(&["=1+", "1+1", "=SUM(", "hello world"]).to_string() },
            "new-name/bad-formula",
        ),
        75 => (Ev::DeleteName { name: "nosuchname".into(), scope: None }, "delete-name/missing"),
        76 => match v.names.first() {
            Some((n, s)) => match rng.below(3) {
                0 => (
                    Ev::UpdateName { name: n.clone(), scope: *s, new_name: "1bad".into(), new_scope: *s, formula: "Sheet1!$A$1".into() },
                    "update-name/invalid-identifier",
                ),
                1 => (
                    Ev::UpdateName { name: n.clone(), scope: *s, new_name: n.clone(), new_scope: Some(ns), formula: "Sheet1!$A$1".into() },
                    "update-name/no-scope",
                ),
                _ => (
                    Ev::UpdateName { name: n.clone(), scope: *s, new_name: n.clone(), new_scope: *s, formula: "=1+".into() },
                    "update-name/bad-formula",
                ),
            },
            None => (
                Ev::UpdateName { name: "nosuch".into(), scope: None, new_name: "x1x".into(), new_scope: None, formula: "Sheet1!$A$1".into() },
                "update-name/missing",
            ),
        },
        77 => (
            Ev::SetLink { sheet: if rng.chance(0.5) { ns } else { sh }, row: if rng.chance(0.5) { badrow } else { r }, col: badcol, link: Link::External { target: "https://x.y".into(), tooltip: None }, label: Some("l".into()) },
            "set-link/bad-target-cell",
        ),
        78 => (Ev::DeleteLink { sheet: ns, row: r, col: c }, "delete-link/no-sheet"),
        79 => {
            let rule = gen::cf_rule(rng, &cx);
            match rng.below(4) {
                0 => (Ev::AddCf { sheet: ns, range: "A1:B2".into(), rule }, "cf-add/no-sheet"),
                1 => (Ev::AddCf { sheet: sh, range: rng.pick(&["", "A1:", "ZZZZ1", "1:A", "A0"]).to_string(), rule }, "cf-add/bad-range"),
                2 => (
                    Ev::AddCf {
                        sheet: sh,
                        range: "A1:B2".into(),
                        rule: ironcalc_base::cf_types::CfRuleInput::Formula {
                            formula: "=1+".into(),
                            format: Default::default(),
                            stop_if_true: false,
                        },
                    },
                    "cf-add/bad-formula",
                ),
                _ => (Ev::UpdateCf { sheet: sh, index: 99, range: "A1".into(), rule }, "cf-update/bad-index"),
            }
        }
        80 => (
            match rng.below(3) {
                0 => Ev::DeleteCf { sheet: sh, index: 99 },
                1 => Ev::RaiseCf { sheet: sh, index: 99 },
                _ => Ev::LowerCf { sheet: ns, index: 0 },
            },
            "cf-index/bad",
        ),
        81 => match rng.below(4) {
            0 => (
                Ev::CreateNamedStyle { name: "Normal".into(), style: gen::style(rng), includes: Default::default() },
                "named-style/create-existing",
            ),
            1 => (Ev::DeleteNamedStyle { name: "nosuchstyle".into() }, "named-style/delete-missing"),
            2 => (
                Ev::UpdateNamedStyle { name: "nosuchstyle".into(), new_name: "q".into(), style: gen::style(rng), includes: Default::default() },
                "named-style/update-missing",
            ),
            _ => (Ev::ApplyNamedStyle { sheet: sh, r0: r, c0: c, r1: r + 1, c1: c + 1, name: "nosuchstyle".into() }, "named-style/apply-missing"),
        },
        82 => match cse {
            Some((s, ar, ac, _, _)) => (
                Ev::CopyPaste { src_sheet: s, r0: 12, c0: 8, r1: 12, c1: 8, dst_sheet: s, dr: ar, dc: ac, cut: rng.chance(0.5) },
                "paste/onto-cse",
            ),
            None => {
                // (a formula copied a million rows down can come to read most of the sheet,
                // which the evaluator walks cell by cell: the source is moved off formulas)
                let has_formula = v.formula_cells.iter().any(|(s, rr, cc)| *s == sh && *rr >= r && *rr <= r + 2 && *cc >= c && *cc <= c + 2);
                let (r, c) = if has_formula { (r + 40, c + 40) } else { (r, c) };
                (
                    Ev::CopyPaste { src_sheet: sh, r0: r, c0: c, r1: r + 2, c1: c + 2, dst_sheet: sh, dr: LAST_ROW, dc: LAST_COL, cut: rng.chance(0.5) },
                    "paste/leaves-grid",
                )
            }
        },
        83 => (
            if rng.chance(0.5) {
                Ev::PasteCsv { a: area(ns, r, c, 1, 1), csv: "1\t2".into() }
            } else {
                Ev::PasteCsv { a: area(sh, LAST_ROW, LAST_COL, 1, 1), csv: "1\t2\n3\t4".into() }
            },
            "paste-csv/bad-target",
        ),
        84 => match rng.below(4) {
            0 => (Ev::AutoFillRows { a: area(ns, r, c, 1, 2), to_row: r + 4 }, "autofill/no-sheet"),
            1 => (Ev::AutoFillRows { a: area(sh, r, c, 1, 3), to_row: r + 1 }, "autofill/target-inside-source"),
            2 => (Ev::AutoFillCols { a: area(sh, r, c, 2, 1), to_col: LAST_COL + 2 }, "autofill/target-outside-grid"),
            _ => (Ev::AutoFillRows { a: area(sh, badrow, c, 1, 1), to_row: 5 }, "autofill/source-outside-grid"),
        },
        _ => match rng.below(4) {
            0 => (Ev::SetTimezone { tz: "Mars/Olympus".into() }, "timezone/unknown"),
            1 => (Ev::SetTimezone { tz: String::new() }, "timezone/empty"),
            2 => (Ev::SetLocale { locale: "xx-YY".into() }, "locale/unknown"),
            _ => (Ev::SetLocale { locale: String::new() }, "locale/empty"),
        },
    };
    Some((ev, Some(label.to_string())))
}
