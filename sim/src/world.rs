//! The simulated deployment: a primary editing session, follower sessions fed
//! by the diff queue, the byte store ("disk" for the internal format), an
//! xlsx disk, and the simulated clock.

use crate::ev::Ev;
use crate::node::{static_lang, static_locale, static_tz, Node};
use crate::snap::{snapshot, Snap};
use ironcalc_base::Model;
use serde::{Deserialize, Serialize};
use std::collections::VecDeque;
use std::panic::{catch_unwind, AssertUnwindSafe};

#[derive(Serialize, Deserialize, Clone, Debug, PartialEq)]
pub enum InitialWb {
    Empty,
    /// descriptor layouts as imported files have (multi-column `Col`s with
    /// mixed width / hidden / style), index into `layouts()`
    Layout(u8),
    /// imported from a fixture of xlsx/tests (style pools, fonts and default style of real files)
    Fixture(String),
}

/// what the bare `Model` of the world (C29/C30) starts from
#[derive(Serialize, Deserialize, Clone, Debug, PartialEq)]
pub enum BareInit {
    Empty,
    Layout(u8),
    /// imported from a fixture of xlsx/tests: the style pools real files bring
    Fixture(String),
}

#[derive(Serialize, Deserialize, Clone, Debug)]
pub struct Init {
    pub lang: String,
    pub locale: String,
    pub tz: String,
    pub followers: usize,
    pub initial: InitialWb,
    pub start_paused: bool,
    /// key of the entropy seam for this run's thread
    pub hash_key: u64,
    pub start_ms: u64,
    #[serde(default, skip_serializing_if = "Option::is_none")]
    pub bare: Option<BareInit>,
}

pub struct Follower {
    pub node: Node,
    pub inbox: VecDeque<Vec<u8>>,
    pub applied: u64,
}

pub struct Saved {
    pub bytes: Vec<u8>,
    pub snap: Snap,
}

#[derive(Default, Clone, Debug, Serialize, Deserialize)]
pub struct FaultCounters {
    pub rejected_calls: u64,
    pub batch_cuts: u64,
    pub deliveries: u64,
    pub delayed_deliveries: u64,
    pub clean_restarts: u64,
    pub dirty_restarts: u64,
    pub xlsx_restarts: u64,
    pub saves: u64,
    pub undos: u64,
    pub redos: u64,
    pub language_switches: u64,
    pub locale_switches: u64,
    pub pauses: u64,
    pub ticks: u64,
    pub panics: u64,
    pub xlsx_round_trips: u64,
    pub xlsx_export_errors: u64,
    pub xlsx_short_writes: u64,
    pub xlsx_interrupts: u64,
    pub corrupt_imports: u64,
}

pub struct World {
    pub primary: Node,
    pub followers: Vec<Follower>,
    pub store: Option<Saved>,
    pub now_ms: u64,
    pub next_incarnation: u32,
    pub init: Init,
    pub stats: FaultCounters,
    /// shadow of the undo / redo stacks: kinds of the recorded operations
    /// (maintained from hook H1, used by generator guards only)
    pub undo_kinds: Vec<&'static str>,
    pub redo_kinds: Vec<&'static str>,
    /// a `Model` driven through its own setters (C29/C30)
    pub bare: Option<Model<'static>>,
    /// bytes of the bare model as it started (the reference models read untouched lines from it)
    pub bare_initial: Vec<u8>,
    /// bytes of the primary as it started
    pub primary_initial: Vec<u8>,
}

pub enum Aux {
    /// export succeeded and the written bytes imported
    Imported { model: Box<Model<'static>>, bytes_len: usize, damaged: Option<String> },
    ExportFailed(String),
    /// export reported success but what is on the disk does not import
    ImportFailed { error: String, bytes_len: usize, damaged: Option<String> },
    /// outcome of importing a damaged package
    Corrupted { imported: bool, error: Option<String>, non_finite: Vec<String>, reader_faults: u64, bytes_len: usize },
}

pub struct StepRes {
    pub aux: Option<Aux>,
    pub result: Result<(), String>,
    pub panic: Option<String>,
    /// set by a Restart: the previous incarnation's last snapshot etc. are
    /// oracle business; here only the raw facts
    pub restarted: bool,
}

thread_local! {
    pub static LAST_PANIC_LOCATION: std::cell::RefCell<String> = const { std::cell::RefCell::new(String::new()) };
}

/// installs a silent panic hook that remembers where the panic happened
pub fn install_panic_hook() {
    std::panic::set_hook(Box::new(|info| {
        let loc = info.location().map(|l| format!("{}:{}", l.file(), l.line())).unwrap_or_default();
        let _ = LAST_PANIC_LOCATION.try_with(|c| *c.borrow_mut() = loc);
    }));
}

pub fn panic_message(e: Box<dyn std::any::Any + Send>) -> String {
    let msg = if let Some(s) = e.downcast_ref::<&str>() {
        s.to_string()
    } else if let Some(s) = e.downcast_ref::<String>() {
        s.clone()
    } else {
        "<non-string panic>".to_string()
    };
    let loc = LAST_PANIC_LOCATION.try_with(|c| c.borrow().clone()).unwrap_or_default();
    // paths relative to the repository
    let loc = loc.rsplit("/repo/").next().unwrap_or(&loc).to_string();
    format!("{msg} [at {loc}]")
}

fn apply_layout(model: &mut Model, k: u8) {
    use ironcalc_base::types::{Col, Row};
    // styles referenced below are created through the public style pool API
    let mut st = ironcalc_base::types::Style::default();
    st.font.b = true;
    let bold = model.workbook.styles.create_new_style(&st);
    let mut st2 = ironcalc_base::types::Style::default();
    st2.num_fmt = "0.00".to_string();
    let fmt = model.workbook.styles.create_new_style(&st2);
    let ws = &mut model.workbook.worksheets[0];
    match k % 4 {
        0 => {
            ws.cols = vec![
                Col { min: 2, max: 4, width: 20.0, custom_width: true, hidden: false, style: Some(bold) },
                Col { min: 6, max: 7, width: 10.0, custom_width: false, hidden: true, style: None },
            ];
        }
        1 => {
            ws.cols = vec![
                Col { min: 1, max: 3, width: 12.5, custom_width: true, hidden: true, style: Some(fmt) },
                Col { min: 4, max: 4, width: 30.0, custom_width: true, hidden: false, style: None },
                Col { min: 5, max: 9, width: 10.0, custom_width: false, hidden: false, style: Some(bold) },
            ];
            ws.rows = vec![Row { r: 3, height: 30.0, custom_format: true, custom_height: true, s: fmt, hidden: false }];
        }
        2 => {
            ws.cols = vec![Col { min: 3, max: 6, width: 5.0, custom_width: true, hidden: false, style: None }];
            ws.rows = vec![
                Row { r: 2, height: 16.0, custom_format: false, custom_height: false, s: 0, hidden: true },
                Row { r: 5, height: 40.0, custom_format: true, custom_height: true, s: bold, hidden: false },
            ];
        }
        _ => {
            ws.cols = vec![
                Col { min: 1, max: 2, width: 10.0, custom_width: false, hidden: false, style: Some(fmt) },
                Col { min: 3, max: 5, width: 22.0, custom_width: true, hidden: true, style: Some(bold) },
            ];
        }
    }
}

impl World {
    pub fn new(init: &Init) -> Result<World, String> {
        let lang = static_lang(&init.lang).ok_or("harness: unknown language")?;
        let locale = static_locale(&init.locale).ok_or("harness: unknown locale")?;
        let tz = static_tz(&init.tz).ok_or("harness: unknown tz")?;
        ironcalc_base::mock_time::set_mock_time(init.start_ms as i64);
        let mut primary = match init.initial {
            InitialWb::Empty => Node::new_empty(locale, tz, lang)?,
            InitialWb::Layout(k) => {
                let mut m = Model::new_empty("model", locale, tz, lang)?;
                apply_layout(&mut m, k);
                Node::from_model(m, lang, 0)
            }
            InitialWb::Fixture(ref name) => {
                let b = std::fs::read(format!("{}/{}", fixtures_dir(), name)).map_err(|e| format!("harness: fixture {name}: {e}"))?;
                let wb = ironcalc::import::load_from_xlsx_bytes(&b, "model", locale, tz).map_err(|e| format!("harness: fixture {name}: {e}"))?;
                let mut m = Model::from_workbook(wb, lang)?;
                m.evaluate();
                Node::from_model(m, lang, 0)
            }
        };
        if init.start_paused {
            primary.um.pause_evaluation();
            primary.paused = true;
        }
        let bytes = primary.um.to_bytes();
        let bare = match &init.bare {
            None => None,
            Some(BareInit::Empty) => Some(Model::new_empty("model", locale, tz, lang)?),
            Some(BareInit::Layout(k)) => {
                let mut m = Model::new_empty("model", locale, tz, lang)?;
                apply_layout(&mut m, *k);
                Some(m)
            }
            Some(BareInit::Fixture(name)) => {
                let b = std::fs::read(format!("{}/{}", fixtures_dir(), name)).map_err(|e| format!("harness: fixture {name}: {e}"))?;
                let wb = ironcalc::import::load_from_xlsx_bytes(&b, "model", "en", "UTC").map_err(|e| format!("harness: fixture {name}: {e}"))?;
                let mut m = Model::from_workbook(wb, "en")?;
                m.evaluate();
                Some(m)
            }
        };
        let bare_initial = bare.as_ref().map(|m| m.to_bytes()).unwrap_or_default();
        let mut followers = Vec::new();
        for i in 0..init.followers {
            let node = Node::from_bytes(&bytes, lang, 100 + i as u32)?;
            followers.push(Follower { node, inbox: VecDeque::new(), applied: 0 });
        }
        Ok(World {
            primary,
            followers,
            store: None,
            now_ms: init.start_ms,
            next_incarnation: 1,
            init: init.clone(),
            stats: FaultCounters::default(),
            undo_kinds: vec![],
            redo_kinds: vec![],
            bare,
            bare_initial,
            primary_initial: bytes,
        })
    }

    /// Applies one event; panics inside the engine are caught and reported.
    pub fn step(&mut self, ev: &Ev) -> StepRes {
        ironcalc_base::mock_time::set_mock_time(self.now_ms as i64);
        let (u0, r0, _) = self.primary.lens();
        let r = catch_unwind(AssertUnwindSafe(|| self.step_inner(ev)));
        match r {
            Ok(res) => {
                let (u1, r1, _) = self.primary.lens();
                if res.restarted {
                    self.undo_kinds.clear();
                    self.redo_kinds.clear();
                } else if matches!(ev, Ev::Undo) && u1 + 1 == u0 {
                    if let Some(k) = self.undo_kinds.pop() {
                        self.redo_kinds.push(k);
                    }
                } else if matches!(ev, Ev::Redo) && r1 + 1 == r0 {
                    if let Some(k) = self.redo_kinds.pop() {
                        self.undo_kinds.push(k);
                    }
                } else if u1 == u0 + 1 {
                    self.undo_kinds.push(ev.kind());
                    self.redo_kinds.clear();
                } else if r1 == 0 && r0 > 0 {
                    self.redo_kinds.clear();
                }
                res
            }
            Err(e) => {
                self.stats.panics += 1;
                StepRes { aux: None, result: Err("panic".into()), panic: Some(panic_message(e)), restarted: false }
            }
        }
    }

    /// A restart of the primary loses its outgoing queue: what was not flushed never
    /// reaches the followers, and diffs recorded afterwards would be applied to another
    /// base state than the one they were recorded against. Everyone reloads the document.
    fn reload_followers(&mut self) {
        if self.followers.is_empty() {
            return;
        }
        let bytes = self.primary.um.to_bytes();
        for (i, f) in self.followers.iter_mut().enumerate() {
            let inc = self.next_incarnation + i as u32;
            if let Ok(mut n) = Node::from_bytes(&bytes, f.node.lang, 100 + inc) {
                n.um.evaluate();
                f.node = n;
                f.inbox.clear();
            }
        }
        self.next_incarnation += self.followers.len() as u32;
    }

    fn bare_op(&mut self, op: &crate::ev::BareOp) -> Result<(), String> {
        use crate::ev::BareOp::*;
        let lang = self.primary.lang;
        let m = match self.bare.as_mut() {
            Some(m) => m,
            None => return Err("harness: no bare model in this world".to_string()),
        };
        match op {
            ColWidth { sheet, col, w } => m.set_column_width(*sheet, *col, *w),
            ColHidden { sheet, col, hidden } => m.set_column_hidden(*sheet, *col, *hidden),
            ColStyle { sheet, col, style } => m.set_column_style(*sheet, *col, style),
            ColStyleDelete { sheet, col } => m.delete_column_style(*sheet, *col),
            RowHeight { sheet, row, h } => m.set_row_height(*sheet, *row, *h),
            RowHidden { sheet, row, hidden } => m.set_row_hidden(*sheet, *row, *hidden),
            RowStyle { sheet, row, style } => m.set_row_style(*sheet, *row, style),
            RowStyleDelete { sheet, row } => m.delete_row_style(*sheet, *row),
            CellStyle { sheet, row, col, style } => m.set_cell_style(*sheet, *row, *col, style),
            AddSheet { name } => m.add_sheet(name),
            InsertSheet { name, index } => m.insert_sheet(name, *index, None),
            RenameSheet { index, name } => m.rename_sheet_by_index(*index, name),
            DeleteSheet { index } => m.delete_sheet(*index),
            Input { sheet, row, col, text } => m.set_user_input(*sheet, *row, *col, text.clone()).map(|_| m.evaluate()),
            InsertRows { sheet, row, n } => m.insert_rows(*sheet, *row, *n).map(|_| m.evaluate()),
            InsertCols { sheet, col, n } => m.insert_columns(*sheet, *col, *n).map(|_| m.evaluate()),
            DeleteRows { sheet, row, n } => m.delete_rows(*sheet, *row, *n).map(|_| m.evaluate()),
            DeleteCols { sheet, col, n } => m.delete_columns(*sheet, *col, *n).map(|_| m.evaluate()),
            MoveRows { sheet, row, n, delta } => m.move_rows_action(*sheet, *row, *n, *delta).map(|_| m.evaluate()),
            MoveCols { sheet, col, n, delta } => m.move_columns_action(*sheet, *col, *n, *delta).map(|_| m.evaluate()),
            Restart => {
                let b = m.to_bytes();
                let mut n = Model::from_bytes(&b, lang)?;
                n.evaluate();
                self.bare = Some(n);
                self.stats.clean_restarts += 1;
                Ok(())
            }
        }
    }

    fn step_inner(&mut self, ev: &Ev) -> StepRes {
        let mut restarted = false;
        let mut aux = None;
        let result = match ev {
            Ev::XlsxExportImport { plan } => {
                let disk = crate::xlsxfault::SimDisk::new(plan.clone());
                match ironcalc::export::save_xlsx_to_writer(self.primary.model(), disk) {
                    Err(e) => {
                        self.stats.xlsx_export_errors += 1;
                        aux = Some(Aux::ExportFailed(format!("{e}")));
                        Ok(())
                    }
                    Ok(disk) => {
                        self.stats.xlsx_short_writes += disk.stats.short_writes;
                        self.stats.xlsx_interrupts += disk.stats.interrupts;
                        let bytes = disk.into_bytes();
                        // what a fault-free disk would hold: an export that reports success
                        // after short writes, EINTR and the like must have left exactly this
                        let damaged = if plan.is_none() {
                            None
                        } else {
                            match export_xlsx(self.primary.model()) {
                                Err(e) => Some(format!("the fault-free reference export failed: {e}")),
                                Ok(reference) => damaged_against(&reference, &bytes),
                            }
                        };
                        let locale = self.primary.model().workbook.settings.locale.clone();
                        let tz = self.primary.model().workbook.settings.tz.clone();
                        match import_xlsx(&bytes, &locale, &tz, self.primary.lang) {
                            Ok(m) => aux = Some(Aux::Imported { model: Box::new(m), bytes_len: bytes.len(), damaged }),
                            Err(e) => aux = Some(Aux::ImportFailed { error: e, bytes_len: bytes.len(), damaged }),
                        }
                        self.stats.xlsx_round_trips += 1;
                        Ok(())
                    }
                }
            }
            Ev::CorruptImport { fixture, corrupt, read, evaluate } => {
                let base: Result<Vec<u8>, String> = match fixture {
                    Some(name) => std::fs::read(format!("{}/{}", fixtures_dir(), name)).map_err(|e| format!("harness: fixture {name}: {e}")),
                    None => export_xlsx(self.primary.model()),
                };
                match base {
                    Err(e) => Err(e),
                    Ok(bytes) => {
                        let damaged = crate::xlsxfault::corrupt(&bytes, corrupt);
                        let bytes_len = damaged.len();
                        self.stats.corrupt_imports += 1;
                        let mut reader_faults = 0;
                        let wb = match read {
                            None => ironcalc::import::load_from_xlsx_bytes(&damaged, "model", "en", "UTC").map_err(|e| format!("{e}")),
                            Some(plan) => {
                                let mut r = crate::xlsxfault::FaultyReader::new(damaged, plan.clone());
                                let res = ironcalc::import::verif_load_xlsx_from_reader(&mut r, "model", "en", "UTC").map_err(|e| format!("{e}"));
                                reader_faults = r.faults_fired;
                                res
                            }
                        };
                        let out = match wb {
                            Err(e) => Aux::Corrupted { imported: false, error: Some(e), non_finite: vec![], reader_faults, bytes_len },
                            Ok(wb) => match Model::from_workbook(wb, "en") {
                                Err(e) => Aux::Corrupted { imported: false, error: Some(e), non_finite: vec![], reader_faults, bytes_len },
                                Ok(mut m) => {
                                    if *evaluate {
                                        m.evaluate();
                                    }
                                    let node = Node::from_model(m, "en", 999);
                                    let nf = crate::monitors::non_finite(&node).into_iter().map(|(_, d)| d).collect();
                                    Aux::Corrupted { imported: true, error: None, non_finite: nf, reader_faults, bytes_len }
                                }
                            },
                        };
                        aux = Some(out);
                        Ok(())
                    }
                }
            }
            Ev::Flush => {
                let (_, _, q) = self.primary.lens();
                let bytes = self.primary.um.flush_send_queue();
                if q > 0 {
                    self.stats.batch_cuts += 1;
                }
                for f in &mut self.followers {
                    f.inbox.push_back(bytes.clone());
                }
                Ok(())
            }
            Ev::Deliver { follower } => match self.followers.get_mut(*follower) {
                None => Err("harness: no such follower".to_string()),
                Some(f) => match f.inbox.pop_front() {
                    None => Ok(()),
                    Some(b) => {
                        if !f.inbox.is_empty() {
                            self.stats.delayed_deliveries += 1;
                        }
                        self.stats.deliveries += 1;
                        f.applied += 1;
                        f.node.um.apply_external_diffs(&b)
                    }
                },
            },
            Ev::Save => {
                self.stats.saves += 1;
                self.store = Some(Saved { bytes: self.primary.um.to_bytes(), snap: snapshot(&self.primary) });
                Ok(())
            }
            Ev::Bare { op } => self.bare_op(op),
            Ev::Restart { dirty } => {
                let bytes = if *dirty {
                    match &self.store {
                        Some(s) => Some(s.bytes.clone()),
                        None => None,
                    }
                } else {
                    Some(self.primary.um.to_bytes())
                };
                match bytes {
                    None => Err("harness: nothing saved".to_string()),
                    Some(b) => {
                        let inc = self.next_incarnation;
                        self.next_incarnation += 1;
                        match Node::from_bytes(&b, self.primary.lang, inc) {
                            Ok(mut n) => {
                                n.um.evaluate();
                                if self.primary.paused {
                                    n.um.pause_evaluation();
                                    n.paused = true;
                                }
                                self.primary = n;
                                restarted = true;
                                self.reload_followers();
                                if *dirty {
                                    self.stats.dirty_restarts += 1;
                                } else {
                                    self.stats.clean_restarts += 1;
                                }
                                Ok(())
                            }
                            Err(e) => Err(format!("restart failed: {e}")),
                        }
                    }
                }
            }
            Ev::XlsxRestart => {
                let lang = self.primary.lang;
                let r = xlsx_round_trip(self.primary.model(), lang);
                match r {
                    Ok(m) => {
                        let inc = self.next_incarnation;
                        self.next_incarnation += 1;
                        let paused = self.primary.paused;
                        let mut n = Node::from_model(m, lang, inc);
                        if paused {
                            n.um.pause_evaluation();
                            n.paused = true;
                        }
                        self.primary = n;
                        restarted = true;
                        self.reload_followers();
                        self.stats.xlsx_restarts += 1;
                        Ok(())
                    }
                    Err(e) => Err(e),
                }
            }
            Ev::Tick { ms } => {
                self.now_ms += ms;
                self.stats.ticks += 1;
                Ok(())
            }
            Ev::Resume => {
                let r = self.primary.apply(ev);
                self.primary.um.evaluate();
                self.primary.stale = false;
                r
            }
            _ => {
                match ev {
                    Ev::Undo => self.stats.undos += 1,
                    Ev::Redo => self.stats.redos += 1,
                    Ev::SetLanguage { .. } => self.stats.language_switches += 1,
                    Ev::SetLocale { .. } => self.stats.locale_switches += 1,
                    Ev::Pause => self.stats.pauses += 1,
                    _ => {}
                }
                let r = self.primary.apply(ev);
                if r.is_err() && ev.is_user_op() {
                    self.stats.rejected_calls += 1;
                }
                r
            }
        };
        StepRes { aux, result, panic: None, restarted }
    }

    pub fn quiescent(&self) -> bool {
        self.primary.lens().2 == 0 && self.followers.iter().all(|f| f.inbox.is_empty())
    }
}

pub fn fixtures_dir() -> String {
    std::env::var("VERIF_FIXTURES").unwrap_or_else(|_| "/repo/xlsx/tests".to_string())
}

/// fixture packages (relative paths), sorted; small ones only
pub fn fixtures() -> Vec<String> {
    fn walk(dir: &std::path::Path, base: &std::path::Path, out: &mut Vec<String>) {
        if let Ok(rd) = std::fs::read_dir(dir) {
            let mut entries: Vec<_> = rd.flatten().collect();
            entries.sort_by_key(|e| e.path());
            for e in entries {
                let p = e.path();
                if p.is_dir() {
                    walk(&p, base, out);
                } else if p.extension().map(|x| x == "xlsx").unwrap_or(false) {
                    if e.metadata().map(|m| m.len() < 60_000).unwrap_or(false) {
                        if let Ok(rel) = p.strip_prefix(base) {
                            out.push(rel.to_string_lossy().to_string());
                        }
                    }
                }
            }
        }
    }
    let base = fixtures_dir();
    let mut out = Vec::new();
    walk(std::path::Path::new(&base), std::path::Path::new(&base), &mut out);
    out
}

/// Compares what a faulted export left on the disk with the fault-free export, modulo
/// the one field the zip writer fills from the real clock (entry modification time):
/// same length, and the same entries in the same order with the same contents.
pub fn damaged_against(reference: &[u8], disk: &[u8]) -> Option<String> {
    if reference == disk {
        return None;
    }
    if reference.len() != disk.len() {
        return Some(format!("{} bytes on disk, {} bytes in the fault-free export", disk.len(), reference.len()));
    }
    let a = match crate::xlsxfault::read_entries(reference) {
        Ok(a) => a,
        Err(e) => return Some(format!("harness: the fault-free export is not a readable archive: {e}")),
    };
    let b = match crate::xlsxfault::read_entries(disk) {
        Ok(b) => b,
        Err(e) => return Some(format!("what is on the disk is not a readable archive: {e}")),
    };
    if a.len() != b.len() {
        return Some(format!("{} entries on disk, {} in the fault-free export", b.len(), a.len()));
    }
    for ((na, da), (nb, db)) in a.iter().zip(b.iter()) {
        if na != nb {
            return Some(format!("entry {nb} on disk where the fault-free export has {na}"));
        }
        if da != db {
            let at = da.iter().zip(db.iter()).position(|(x, y)| x != y).unwrap_or(da.len().min(db.len()));
            return Some(format!("entry {na}: contents differ from the fault-free export at offset {at}"));
        }
    }
    None
}

pub fn export_xlsx(model: &Model) -> Result<Vec<u8>, String> {
    let cur = std::io::Cursor::new(Vec::new());
    let w = ironcalc::export::save_xlsx_to_writer(model, cur).map_err(|e| format!("export: {e}"))?;
    Ok(w.into_inner())
}

pub fn import_xlsx(bytes: &[u8], locale: &str, tz: &str, lang: &'static str) -> Result<Model<'static>, String> {
    let wb = ironcalc::import::load_from_xlsx_bytes(bytes, "model", locale, tz).map_err(|e| format!("import: {e}"))?;
    let mut m = Model::from_workbook(wb, lang)?;
    m.evaluate();
    Ok(m)
}

pub fn xlsx_round_trip(model: &Model, lang: &'static str) -> Result<Model<'static>, String> {
    let bytes = export_xlsx(model)?;
    let locale = model.workbook.settings.locale.clone();
    let tz = model.workbook.settings.tz.clone();
    import_xlsx(&bytes, &locale, &tz, lang)
}
