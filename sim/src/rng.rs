//! The one PRNG of the simulator: xoshiro256** seeded through splitmix64.
//! Everything a run decides is drawn from one instance seeded by
//! `mix(VERIF_SEED, property, run_index)`.

#[derive(Clone, Debug)]
pub struct Rng {
    s: [u64; 4],
}

pub fn splitmix(x: &mut u64) -> u64 {
    *x = x.wrapping_add(0x9E37_79B9_7F4A_7C15);
    let mut z = *x;
    z = (z ^ (z >> 30)).wrapping_mul(0xBF58_476D_1CE4_E5B9);
    z = (z ^ (z >> 27)).wrapping_mul(0x94D0_49BB_1331_11EB);
    z ^ (z >> 31)
}

pub fn mix(a: u64, b: u64, c: u64) -> u64 {
    let mut x = a ^ 0x5851_F42D_4C95_7F2D;
    let mut r = splitmix(&mut x);
    x ^= b.wrapping_mul(0xD6E8_FEB8_6659_FD93);
    r ^= splitmix(&mut x);
    x ^= c.wrapping_mul(0xA076_1D64_78BD_642F);
    r ^= splitmix(&mut x);
    r
}

pub fn hash_str(s: &str) -> u64 {
    // FNV-1a 64
    let mut h: u64 = 0xcbf29ce484222325;
    for b in s.as_bytes() {
        h ^= *b as u64;
        h = h.wrapping_mul(0x100000001b3);
    }
    h
}

impl Rng {
    pub fn new(seed: u64) -> Rng {
        let mut x = seed;
        let s = [
            splitmix(&mut x),
            splitmix(&mut x),
            splitmix(&mut x),
            splitmix(&mut x),
        ];
        Rng { s }
    }
    pub fn next(&mut self) -> u64 {
        let result = self.s[1].wrapping_mul(5).rotate_left(7).wrapping_mul(9);
        let t = self.s[1] << 17;
        self.s[2] ^= self.s[0];
        self.s[3] ^= self.s[1];
        self.s[1] ^= self.s[2];
        self.s[0] ^= self.s[3];
        self.s[2] ^= t;
        self.s[3] = self.s[3].rotate_left(45);
        result
    }
    /// uniform in 0..n (n > 0)
    pub fn below(&mut self, n: u64) -> u64 {
        if n <= 1 {
            return 0;
        }
        ((self.next() as u128 * n as u128) >> 64) as u64
    }
    pub fn range(&mut self, lo: i64, hi: i64) -> i64 {
        // inclusive
        if hi <= lo {
            return lo;
        }
        lo + self.below((hi - lo + 1) as u64) as i64
    }
    pub fn chance(&mut self, p: f64) -> bool {
        ((self.next() >> 11) as f64 / (1u64 << 53) as f64) < p
    }
    pub fn pick<'a, T>(&mut self, xs: &'a [T]) -> &'a T {
        &xs[self.below(xs.len() as u64) as usize]
    }
    pub fn weighted(&mut self, ws: &[u32]) -> usize {
        let total: u64 = ws.iter().map(|w| *w as u64).sum();
        if total == 0 {
            return 0;
        }
        let mut r = self.below(total);
        for (i, w) in ws.iter().enumerate() {
            if r < *w as u64 {
                return i;
            }
            r -= *w as u64;
        }
        ws.len() - 1
    }
    pub fn shuffle<T>(&mut self, xs: &mut [T]) {
        for i in (1..xs.len()).rev() {
            let j = self.below(i as u64 + 1) as usize;
            xs.swap(i, j);
        }
    }
}

/// A fixed, seed-independent hasher (FNV-1a) for snapshot hashes and the
/// distinct-case sets; never `RandomState`.
#[derive(Clone)]
pub struct Fnv(pub u64);
impl Default for Fnv {
    fn default() -> Self {
        Fnv(0xcbf29ce484222325)
    }
}
impl Fnv {
    pub fn write(&mut self, bytes: &[u8]) {
        for b in bytes {
            self.0 ^= *b as u64;
            self.0 = self.0.wrapping_mul(0x100000001b3);
        }
    }
    pub fn write_u64(&mut self, v: u64) {
        self.write(&v.to_le_bytes());
    }
    pub fn write_str(&mut self, s: &str) {
        self.write(s.as_bytes());
        self.write(&[0xff]);
    }
    pub fn finish(&self) -> u64 {
        self.0
    }
}
