//! Minimisation: delta debugging on the event list, then per-event
//! simplification; a candidate is accepted only if it fails with the same
//! violation class (oracle, culprit kind, set of facet kinds).

use crate::ev::{Ev, Rec};
use crate::oracle::Violation;
use crate::world::Init;

pub struct Minimised {
    pub events: Vec<Rec>,
    pub violation: Violation,
    pub init: Init,
    pub replays: usize,
}

type Class = (String, String, Vec<String>);

fn try_candidate(prop: &str, init: &Init, events: &[Rec], class: &Class, budget: &mut usize) -> Option<(Vec<Rec>, Violation)> {
    if *budget == 0 {
        return None;
    }
    *budget -= 1;
    let out = crate::replay_events(prop, init, events)?;
    let v = out.violation?;
    if &v.class() == class {
        // keep the executed prefix only, with the recorded results
        let mut tr = out.trace;
        tr.truncate(v.at_event + 1);
        Some((tr, v))
    } else {
        None
    }
}

pub fn minimise(prop: &str, init: &Init, events: &[Rec], violation: &Violation) -> Minimised {
    let class = violation.class();
    let mut budget: usize = std::env::var("VERIF_MIN_BUDGET").ok().and_then(|s| s.parse().ok()).unwrap_or(400);
    let start_budget = budget;
    let mut cur: Vec<Rec> = events[..(violation.at_event + 1).min(events.len())].to_vec();
    let mut cur_v = violation.clone();
    let mut init = init.clone();

    // 1. ddmin over chunks
    let mut n = 2usize;
    while cur.len() >= 2 && budget > 0 {
        let chunk = (cur.len() + n - 1) / n;
        let mut reduced = false;
        let mut start = 0;
        while start < cur.len() {
            let end = (start + chunk).min(cur.len());
            if end - start == cur.len() {
                break;
            }
            let mut cand: Vec<Rec> = Vec::with_capacity(cur.len());
            cand.extend_from_slice(&cur[..start]);
            cand.extend_from_slice(&cur[end..]);
            if let Some((tr, v)) = try_candidate(prop, &init, &cand, &class, &mut budget) {
                cur = tr;
                cur_v = v;
                n = (n - 1).max(2);
                reduced = true;
                break;
            }
            start = end;
        }
        if !reduced {
            if chunk <= 1 {
                break;
            }
            n = (n * 2).min(cur.len());
        }
    }

    // 2. simplify the configuration
    for (lang, locale) in [("en", "en")] {
        if init.lang != lang || init.locale != locale {
            let mut cand = init.clone();
            cand.lang = lang.to_string();
            cand.locale = locale.to_string();
            if let Some((tr, v)) = try_candidate(prop, &cand, &cur, &class, &mut budget) {
                init = cand;
                cur = tr;
                cur_v = v;
            }
        }
    }
    if init.followers > 1 {
        let mut cand = init.clone();
        cand.followers = 1;
        let evs: Vec<Rec> = cur
            .iter()
            .filter(|r| !matches!(r.ev, Ev::Deliver { follower } if follower >= 1))
            .cloned()
            .collect();
        if let Some((tr, v)) = try_candidate(prop, &cand, &evs, &class, &mut budget) {
            init = cand;
            cur = tr;
            cur_v = v;
        }
    }
    if init.initial != crate::world::InitialWb::Empty {
        let mut cand = init.clone();
        cand.initial = crate::world::InitialWb::Empty;
        if let Some((tr, v)) = try_candidate(prop, &cand, &cur, &class, &mut budget) {
            init = cand;
            cur = tr;
            cur_v = v;
        }
    }

    // 3. per-event simplification of texts
    let mut i = 0;
    while i < cur.len() && budget > 0 {
        let simpler: Vec<Ev> = match &cur[i].ev {
            Ev::Input { sheet, row, col, text } if text.len() > 2 => {
                let mut v = Vec::new();
                for t in ["1", "a", "=1"] {
                    if t != text {
                        v.push(Ev::Input { sheet: *sheet, row: *row, col: *col, text: t.to_string() });
                    }
                }
                v
            }
            _ => vec![],
        };
        for s in simpler {
            let mut cand = cur.clone();
            cand[i].ev = s;
            if let Some((tr, v)) = try_candidate(prop, &init, &cand, &class, &mut budget) {
                cur = tr;
                cur_v = v;
                break;
            }
        }
        i += 1;
    }

    Minimised { events: cur, violation: cur_v, init, replays: start_budget - budget }
}
