//! Invariant monitors evaluated on every live node after every event:
//! C27 (well-formed structure), C28 (selection), C08 (no non-finite number).

use crate::ev::Ev;
use crate::node::Node;
use crate::oracle::{Abandon, Oracle, Verdict, Violation};
use crate::world::{StepRes, World};
use ironcalc_base::types::{ArrayKind, Cell, FormulaValue, SpillValue};
use std::collections::{HashMap, HashSet};

pub const LAST_ROW: i32 = 1_048_576;
pub const LAST_COL: i32 = 16_384;

/// (clause, detail) for every violated clause of C27
pub fn wellformed(node: &Node) -> Vec<(String, String)> {
    wellformed_model(node.model(), node.stale)
}

pub fn wellformed_model(model: &ironcalc_base::Model, stale: bool) -> Vec<(String, String)> {
    let mut out: Vec<(String, String)> = Vec::new();
    let wb = &model.workbook;
    // sheet names
    let mut seen_names: HashSet<String> = HashSet::new();
    let mut seen_ids: HashSet<u32> = HashSet::new();
    for ws in &wb.worksheets {
        let n = &ws.name;
        let bad_char = n.chars().any(|c| matches!(c, '\\' | '/' | '*' | '?' | ':' | '[' | ']'));
        if n.is_empty() || n.chars().count() > 31 || bad_char {
            out.push(("sheet-names".into(), format!("invalid sheet name {n:?}")));
        }
        if !seen_names.insert(n.to_uppercase()) {
            out.push(("sheet-names".into(), format!("duplicate sheet name (ignoring case) {n:?}")));
        }
        if !seen_ids.insert(ws.sheet_id) {
            out.push(("sheet-ids".into(), format!("duplicate sheet id {}", ws.sheet_id)));
        }
    }
    for (si, ws) in wb.worksheets.iter().enumerate() {
        let parsed_len = model.parsed_formulas.get(si).map(|v| v.len()).unwrap_or(0);
        // cells
        for (r, row) in &ws.sheet_data {
            for (c, cell) in row {
                if *r < 1 || *r > LAST_ROW || *c < 1 || *c > LAST_COL {
                    out.push(("cell-in-grid".into(), format!("sheet {si}: cell at R{r}C{c} outside the grid")));
                }
                let s = crate::snap::cell_style_index(cell);
                if s < 0 || s as usize >= wb.styles.cell_xfs.len() {
                    out.push(("style-index".into(), format!("sheet {si} R{r}C{c}: style index {s} of {}", wb.styles.cell_xfs.len())));
                }
                match cell {
                    Cell::SharedString { si: i, .. } => {
                        if *i < 0 || *i as usize >= wb.shared_strings.len() {
                            out.push(("string-index".into(), format!("sheet {si} R{r}C{c}: shared string {i} of {}", wb.shared_strings.len())));
                        }
                    }
                    Cell::CellFormula { f, .. } | Cell::ArrayFormula { f, .. } => {
                        if *f < 0 || *f as usize >= ws.shared_formulas.len() || *f as usize >= parsed_len {
                            out.push((
                                "formula-index".into(),
                                format!("sheet {si} R{r}C{c}: formula index {f} (shared {} parsed {parsed_len})", ws.shared_formulas.len()),
                            ));
                        }
                    }
                    _ => {}
                }
            }
        }
        // column descriptors: sorted, min<=max, disjoint, inside the grid
        let mut prev_max = 0;
        for col in &ws.cols {
            if col.min < 1 || col.max > LAST_COL || col.min > col.max {
                out.push(("cols".into(), format!("sheet {si}: column descriptor [{}, {}] malformed", col.min, col.max)));
            }
            if col.min <= prev_max {
                out.push(("cols".into(), format!("sheet {si}: column descriptor [{}, {}] overlaps or precedes the previous one (max {prev_max})", col.min, col.max)));
            }
            prev_max = prev_max.max(col.max);
            if let Some(s) = col.style {
                if s < 0 || s as usize >= wb.styles.cell_xfs.len() {
                    out.push(("style-index".into(), format!("sheet {si}: column style index {s}")));
                }
            }
        }
        // row descriptors unique, inside the grid
        let mut rows_seen: HashSet<i32> = HashSet::new();
        for row in &ws.rows {
            if !rows_seen.insert(row.r) {
                out.push(("rows".into(), format!("sheet {si}: duplicate row descriptor for row {}", row.r)));
            }
            if row.r < 1 || row.r > LAST_ROW {
                out.push(("rows".into(), format!("sheet {si}: row descriptor for row {} outside the grid", row.r)));
            }
            if row.s < 0 || row.s as usize >= wb.styles.cell_xfs.len() {
                out.push(("style-index".into(), format!("sheet {si}: row style index {}", row.s)));
            }
        }
        // spill structure (only meaningful on an evaluated state)
        if !stale {
            let mut owner: HashMap<(i32, i32), (i32, i32)> = HashMap::new();
            for (r, row) in &ws.sheet_data {
                for (c, cell) in row {
                    if let Cell::ArrayFormula { r: (w, h), kind, .. } = cell {
                        for rr in *r..*r + (*h).max(1) {
                            for cc in *c..*c + (*w).max(1) {
                                if let Some(prev) = owner.insert((rr, cc), (*r, *c)) {
                                    out.push((
                                        "spill".into(),
                                        format!("sheet {si}: R{rr}C{cc} lies in the ranges of anchors R{}C{} and R{r}C{c}", prev.0, prev.1),
                                    ));
                                }
                                if rr == *r && cc == *c {
                                    continue;
                                }
                                match ws.cell(rr, cc) {
                                    Some(Cell::SpillCell { a, .. }) if *a == (*r, *c) => {}
                                    other => out.push((
                                        "spill".into(),
                                        format!(
                                            "sheet {si}: R{rr}C{cc} is inside the {w}x{h} range of {} anchor R{r}C{c} but holds {}",
                                            if matches!(kind, ArrayKind::Cse) { "CSE" } else { "dynamic" },
                                            other.map(crate::snap::cell_kind).unwrap_or_else(|| "nothing".into())
                                        ),
                                    )),
                                }
                            }
                        }
                    }
                }
            }
            for (r, row) in &ws.sheet_data {
                for (c, cell) in row {
                    if let Cell::SpillCell { a, .. } = cell {
                        let ok = match ws.cell(a.0, a.1) {
                            Some(Cell::ArrayFormula { r: (w, h), .. }) => {
                                *r >= a.0 && *r < a.0 + *h && *c >= a.1 && *c < a.1 + *w
                            }
                            _ => false,
                        };
                        if !ok {
                            out.push((
                                "spill".into(),
                                format!("sheet {si}: spill cell R{r}C{c} belongs to R{}C{} which is no anchor covering it", a.0, a.1),
                            ));
                        }
                    }
                }
            }
        }
    }
    // defined names refer to existing sheets
    for dn in &wb.defined_names {
        if let Some(id) = dn.sheet_id {
            if !wb.worksheets.iter().any(|w| w.sheet_id == id) {
                out.push(("names-scope".into(), format!("defined name {:?} is scoped to sheet id {id} which does not exist", dn.name)));
            }
        }
    }
    out
}

pub fn selection(node: &Node) -> Vec<(String, String)> {
    let mut out = Vec::new();
    let wb = &node.model().workbook;
    let sel = match wb.views.get(&0) {
        Some(v) => v.sheet,
        None => {
            out.push(("selected-sheet".into(), "no workbook view 0".into()));
            return out;
        }
    };
    let ws = match wb.worksheets.get(sel as usize) {
        Some(w) => w,
        None => {
            out.push(("selected-sheet".into(), format!("selected sheet index {sel} but there are {} sheets", wb.worksheets.len())));
            return out;
        }
    };
    match ws.views.get(&0) {
        None => out.push(("selected-cell".into(), format!("sheet {sel} has no view 0"))),
        Some(v) => {
            let [r0, c0, r1, c1] = v.range;
            let (r0, r1) = (r0.min(r1), r0.max(r1));
            let (c0, c1) = (c0.min(c1), c0.max(c1));
            if v.row < 1 || v.row > LAST_ROW || v.column < 1 || v.column > LAST_COL {
                out.push(("selected-cell".into(), format!("selected cell ({}, {}) outside the grid", v.row, v.column)));
            }
            if r0 < 1 || r1 > LAST_ROW || c0 < 1 || c1 > LAST_COL {
                out.push(("selected-range".into(), format!("selected range {:?} outside the grid", v.range)));
            }
            if v.row < r0 || v.row > r1 || v.column < c0 || v.column > c1 {
                out.push(("selected-cell".into(), format!("selected cell ({}, {}) outside the selected range {:?}", v.row, v.column, v.range)));
            }
        }
    }
    out
}

pub fn non_finite(node: &Node) -> Vec<(String, String)> {
    let mut out = Vec::new();
    for (si, ws) in node.model().workbook.worksheets.iter().enumerate() {
        for (r, row) in &ws.sheet_data {
            for (c, cell) in row {
                let bad = match cell {
                    Cell::NumberCell { v, .. } => !v.is_finite(),
                    Cell::CellFormula { v: FormulaValue::Number(n), .. } | Cell::ArrayFormula { v: FormulaValue::Number(n), .. } => !n.is_finite(),
                    Cell::SpillCell { v: SpillValue::Number(n), .. } => !n.is_finite(),
                    _ => false,
                };
                if bad {
                    out.push(("non-finite".into(), format!("sheet {si} R{r}C{c} holds {}", crate::snap::typed_value(cell, &[]))));
                }
            }
        }
    }
    out
}

#[derive(Clone, Copy, PartialEq, Eq)]
pub enum Which {
    Wellformed,
    Selection,
    NonFinite,
}

pub struct Monitor {
    which: Which,
    checks: u64,
    nontrivial_events: u64,
    probes: HashMap<String, u64>,
    last: u64,
}

impl Monitor {
    pub fn new(which: Which) -> Monitor {
        Monitor { which, checks: 0, nontrivial_events: 0, probes: HashMap::new(), last: 0 }
    }
    fn scan(&self, node: &Node) -> Vec<(String, String)> {
        match self.which {
            Which::Wellformed => wellformed(node),
            Which::Selection => selection(node),
            Which::NonFinite => non_finite(node),
        }
    }
    fn check_all(&mut self, w: &World, ev_kind: &str, idx: usize) -> Verdict {
        let mut nodes: Vec<(&str, &Node)> = vec![("primary", &w.primary)];
        for f in &w.followers {
            nodes.push(("follower", &f.node));
        }
        // the bare Model of the world (model-level operations)
        if let (Which::Wellformed, Some(b)) = (self.which, &w.bare) {
            self.checks += 1;
            let problems = wellformed_model(b, false);
            if let Some((clause, detail)) = problems.first() {
                return Verdict::Violation(Violation::simple("wellformed", idx, ev_kind, clause, format!("bare model: {detail} (+{} more)", problems.len() - 1)));
            }
        }
        for (name, n) in nodes {
            self.checks += 1;
            let problems = self.scan(n);
            if let Some((clause, detail)) = problems.first() {
                let oracle = match self.which {
                    Which::Wellformed => "wellformed",
                    Which::Selection => "selection",
                    Which::NonFinite => "finite",
                };
                return Verdict::Violation(Violation::simple(oracle, idx, ev_kind, clause, format!("{name}: {detail} (+{} more)", problems.len() - 1)));
            }
        }
        Verdict::Ok
    }
}

impl Oracle for Monitor {
    fn init(&mut self, _w: &World) {}
    fn after(&mut self, w: &mut World, ev: &Ev, res: &StepRes, idx: usize) -> Verdict {
        let kind = ev.kind();
        if matches!(ev, Ev::Tick { .. }) {
            return Verdict::Ok;
        }
        *self.probes.entry(format!("after_{}", if res.result.is_ok() { "ok" } else if res.panic.is_some() { "panic" } else { "rejected" })).or_insert(0) += 1;
        if self.which == Which::Selection {
            let interesting = matches!(
                ev,
                Ev::NewSheet
                    | Ev::DeleteSheet { .. }
                    | Ev::DuplicateSheet { .. }
                    | Ev::MoveSheet { .. }
                    | Ev::HideSheet { .. }
                    | Ev::UnhideSheet { .. }
                    | Ev::Undo
                    | Ev::Redo
                    | Ev::SelectSheet { .. }
                    | Ev::SelectCell { .. }
                    | Ev::SelectRange { .. }
                    | Ev::Arrow { .. }
                    | Ev::PageDown
                    | Ev::PageUp
                    | Ev::AreaSelecting { .. }
                    | Ev::ExpandRange { .. }
                    | Ev::NavEdge { .. }
                    | Ev::RowsHidden { .. }
                    | Ev::ColsHidden { .. }
            );
            if interesting {
                self.nontrivial_events += 1;
            }
        } else if ev.is_user_op() || matches!(ev, Ev::Undo | Ev::Redo | Ev::Deliver { .. } | Ev::Restart { .. }) {
            self.nontrivial_events += 1;
        }
        if let Some(p) = &res.panic {
            // a node that panicked in the middle of an operation is not judged (nor driven further)
            return Verdict::Abandon(Abandon(format!("panic in {kind}: {p}")));
        }
        if self.which == Which::NonFinite {
            // numbers read from files
            if let Some(crate::world::Aux::Corrupted { imported: true, non_finite, .. }) = &res.aux {
                *self.probes.entry("files_with_forged_numbers_imported".into()).or_insert(0) += 1;
                if let Some(first) = non_finite.first() {
                    return Verdict::Violation(Violation::simple(
                        "finite",
                        idx,
                        kind,
                        "non-finite-from-file",
                        format!("workbook imported from an xlsx file: {first} (+{} more)", non_finite.len() - 1),
                    ));
                }
            }
        }
        self.last = crate::snap::hash(&crate::snap::snapshot(&w.primary));
        self.check_all(w, kind, idx)
    }
    fn exercised(&self) -> u64 {
        self.nontrivial_events
    }
    fn counters(&self) -> Vec<(String, u64)> {
        let mut v = vec![("invariant_scans".to_string(), self.checks), ("events_that_can_affect_it".to_string(), self.nontrivial_events)];
        let mut p: Vec<_> = self.probes.iter().map(|(k, c)| (k.clone(), *c)).collect();
        p.sort();
        v.extend(p);
        v
    }
    fn last_hash(&self) -> u64 {
        self.last
    }
}
