//! Oracles: evaluated while a run proceeds. Each returns at most one
//! violation, which ends the run.

use crate::ev::Ev;
use crate::snap::{diff, facets, snapshot, DiffLine, Snap};
use std::collections::BTreeMap;
use crate::world::{StepRes, World};
use serde::{Deserialize, Serialize};

#[derive(Serialize, Deserialize, Clone, Debug)]
pub struct Violation {
    pub oracle: String,
    pub at_event: usize,
    pub culprit_event: usize,
    pub culprit_kind: String,
    pub facets: Vec<String>,
    pub diff: Vec<DiffLine>,
    pub detail: String,
    /// positions of all differing cells (`<sheet>!R<r>C<c>`), not truncated
    #[serde(default)]
    pub cells: Vec<String>,
    /// classification tags computed by the runner (see `tags.rs`)
    #[serde(default)]
    pub tags: Vec<String>,
}

impl Violation {
    pub fn class(&self) -> (String, String, Vec<String>) {
        (self.oracle.clone(), self.culprit_kind.clone(), self.facets.clone())
    }
    pub fn from_diff(oracle: &str, at: usize, culprit_event: usize, culprit_kind: &str, d: Vec<DiffLine>, detail: String) -> Violation {
        let mut d = d;
        let f = facets(&d);
        // cells whose only difference is that a (transient) spill cell is there or not
        // are listed with a "~" prefix
        let spillish: std::collections::HashSet<String> = d
            .iter()
            .filter(|l| l.facet == "cell.kind" && (l.expected.starts_with("spill of") || l.actual.starts_with("spill of")))
            .map(|l| l.at.clone())
            .collect();
        let mut cells: Vec<String> = d
            .iter()
            .filter(|l| l.facet.starts_with("cell."))
            .map(|l| if spillish.contains(&l.at) { format!("~{}", l.at) } else { l.at.clone() })
            .collect();
        cells.sort();
        cells.dedup();
        cells.truncate(400);
        d.truncate(12);
        Violation {
            cells,
            tags: vec![],
            oracle: oracle.to_string(),
            at_event: at,
            culprit_event,
            culprit_kind: culprit_kind.to_string(),
            facets: f,
            diff: d,
            detail,
        }
    }
    pub fn simple(oracle: &str, at: usize, kind: &str, facet: &str, detail: String) -> Violation {
        Violation {
            oracle: oracle.to_string(),
            at_event: at,
            culprit_event: at,
            culprit_kind: kind.to_string(),
            facets: vec![facet.to_string()],
            diff: vec![],
            detail,
            cells: vec![],
            tags: vec![],
        }
    }
}

/// What happened in a run that is neither "held" nor "violated": the run left
/// the property's hypothesis (e.g. C01 speaks of *successful* operations and a
/// rejected call altered the state, which is C04's business).
#[derive(Clone, Debug)]
pub struct Abandon(pub String);

pub enum Verdict {
    Ok,
    Violation(Violation),
    Abandon(Abandon),
}

pub trait Oracle {
    fn init(&mut self, w: &World);
    fn before(&mut self, _w: &World, _ev: &Ev) {}
    fn after(&mut self, w: &mut World, ev: &Ev, res: &StepRes, idx: usize) -> Verdict;
    fn finish(&mut self, _w: &mut World, _idx: usize) -> Verdict {
        Verdict::Ok
    }
    /// number of times the property's own comparison was actually made
    fn exercised(&self) -> u64;
    /// named counters for the evidence (`oracle_checks`, `probes`)
    fn counters(&self) -> Vec<(String, u64)> {
        vec![]
    }
    fn last_hash(&self) -> u64 {
        0
    }
}

// ---------------------------------------------------------------------------
// History cursor model: C01, C02, C04

#[derive(Clone, Copy, PartialEq, Eq, Debug)]
pub enum HistMode {
    Undo, // C01
    Redo, // C02
    Fail, // C04
}

pub struct History {
    pub mode: HistMode,
    snaps: Vec<Snap>,
    kinds: Vec<(String, usize)>,
    cursor: usize,
    cur: Snap,
    lens0: (usize, usize, usize),
    undo_checks: u64,
    redo_checks: u64,
    fail_checks: u64,
    cursor_checks: u64,
    probe_undo_nonempty_redo: u64,
    probe_new_op_after_undo: u64,
    probe_walk_to_start: u64,
    probe_fail_with_redo: u64,
    probe_fail_with_undo: u64,
}

impl History {
    pub fn new(mode: HistMode) -> History {
        History {
            mode,
            snaps: vec![],
            kinds: vec![],
            cursor: 0,
            cur: Snap::new(),
            lens0: (0, 0, 0),
            undo_checks: 0,
            redo_checks: 0,
            fail_checks: 0,
            cursor_checks: 0,
            probe_undo_nonempty_redo: 0,
            probe_new_op_after_undo: 0,
            probe_walk_to_start: 0,
            probe_fail_with_redo: 0,
            probe_fail_with_undo: 0,
        }
    }
    fn reset(&mut self, w: &World) {
        self.cur = snapshot(&w.primary);
        self.snaps = vec![self.cur.clone()];
        self.kinds = vec![("<initial>".into(), 0)];
        self.cursor = 0;
    }
}

impl Oracle for History {
    fn init(&mut self, w: &World) {
        self.reset(w);
    }
    fn before(&mut self, w: &World, _ev: &Ev) {
        self.lens0 = w.primary.lens();
    }
    fn after(&mut self, w: &mut World, ev: &Ev, res: &StepRes, idx: usize) -> Verdict {
        if res.restarted {
            // history is not durable: a new incarnation starts with empty stacks
            self.reset(w);
            return Verdict::Ok;
        }
        if ev.is_world() {
            return Verdict::Ok;
        }
        let (u0, r0, _) = self.lens0;
        let (u1, r1, _) = w.primary.lens();
        let new = snapshot(&w.primary);
        let kind = ev.kind();
        if let Some(p) = &res.panic {
            // the state after a panic is not meaningful for this model
            if matches!(ev, Ev::Undo | Ev::Redo) || self.mode == HistMode::Fail {
                return Verdict::Violation(Violation::simple("panic", idx, kind, "panic", p.clone()));
            }
            return Verdict::Abandon(Abandon(format!("panic in {kind}: {p}")));
        }
        // cursor bookkeeping must match can_undo / can_redo whatever happens
        let model_can_undo = w.primary.um.can_undo();
        let model_can_redo = w.primary.um.can_redo();
        if model_can_undo != (u1 > 0) || model_can_redo != (r1 > 0) {
            return Verdict::Violation(Violation::simple(
                "can-flags",
                idx,
                kind,
                "history",
                format!("can_undo={model_can_undo} can_redo={model_can_redo} but lengths ({u1},{r1})"),
            ));
        }
        match ev {
            Ev::Undo => {
                if u0 == 0 {
                    if (u1, r1) != (u0, r0) {
                        return Verdict::Violation(Violation::simple(
                            "history-shape",
                            idx,
                            kind,
                            "history",
                            format!("undo on empty stack changed lengths ({u0},{r0})->({u1},{r1})"),
                        ));
                    }
                    self.cur = new;
                    return Verdict::Ok;
                }
                if res.result.is_err() && self.mode != HistMode::Undo {
                    return Verdict::Abandon(Abandon(format!("undo returned {:?} (C01's business)", res.result)));
                }
                if res.result.is_err() {
                    return Verdict::Violation(Violation::simple(
                        "undo-error",
                        idx,
                        &self.kinds[self.cursor].0.clone(),
                        "result",
                        format!("undo returned {:?}", res.result),
                    ));
                }
                if self.cursor == 0 || (u1, r1) != (u0 - 1, r0 + 1) {
                    return Verdict::Violation(Violation::simple(
                        "history-shape",
                        idx,
                        kind,
                        "history",
                        format!("undo: lengths ({u0},{r0})->({u1},{r1}), model cursor {}", self.cursor),
                    ));
                }
                if r0 > 0 {
                    self.probe_undo_nonempty_redo += 1;
                }
                let (ck, ce) = self.kinds[self.cursor].clone();
                self.cursor -= 1;
                if self.cursor == 0 {
                    self.probe_walk_to_start += 1;
                }
                self.cursor_checks += 1;
                {
                    self.undo_checks += 1;
                    let d = diff(&self.snaps[self.cursor], &new);
                    if !d.is_empty() && self.mode != HistMode::Undo {
                        return Verdict::Abandon(Abandon(format!("undo of {ck} did not restore the state (C01's business)")));
                    }
                    if !d.is_empty() {
                        let oracle = "undo-restores";
                        return Verdict::Violation(Violation::from_diff(
                            oracle,
                            idx,
                            ce,
                            &ck,
                            d,
                            format!("undo of event #{ce} ({ck}) did not restore the state before it"),
                        ));
                    }
                }
                self.cur = new;
                Verdict::Ok
            }
            Ev::Redo => {
                if r0 == 0 {
                    if (u1, r1) != (u0, r0) {
                        return Verdict::Violation(Violation::simple(
                            "history-shape",
                            idx,
                            kind,
                            "history",
                            format!("redo on empty list changed lengths ({u0},{r0})->({u1},{r1})"),
                        ));
                    }
                    let d = diff(&self.cur, &new);
                    if !d.is_empty() && self.mode == HistMode::Redo {
                        return Verdict::Violation(Violation::from_diff(
                            "redo-noop",
                            idx,
                            idx,
                            kind,
                            d,
                            "redo with an empty redo list changed the workbook".into(),
                        ));
                    }
                    self.cur = new;
                    return Verdict::Ok;
                }
                if self.mode != HistMode::Redo && res.result.is_err() {
                    return Verdict::Abandon(Abandon(format!("redo returned {:?} (C02's business)", res.result)));
                }
                if self.cursor + 1 >= self.snaps.len() || (u1, r1) != (u0 + 1, r0 - 1) || res.result.is_err() {
                    return Verdict::Violation(Violation::simple(
                        "history-shape",
                        idx,
                        kind,
                        "history",
                        format!(
                            "redo: result {:?}, lengths ({u0},{r0})->({u1},{r1}), model cursor {} of {}",
                            res.result,
                            self.cursor,
                            self.snaps.len()
                        ),
                    ));
                }
                self.cursor += 1;
                self.cursor_checks += 1;
                let (ck, ce) = self.kinds[self.cursor].clone();
                self.redo_checks += 1;
                let d = diff(&self.snaps[self.cursor], &new);
                if !d.is_empty() {
                    if self.mode == HistMode::Redo {
                        return Verdict::Violation(Violation::from_diff(
                            "redo-reapplies",
                            idx,
                            ce,
                            &ck,
                            d,
                            format!("redo of event #{ce} ({ck}) did not reproduce the state that followed it"),
                        ));
                    } else {
                        // not this property's business, but the model is no longer valid
                        return Verdict::Abandon(Abandon(format!("redo of {ck} diverged (C02's business)")));
                    }
                }
                self.cur = new;
                Verdict::Ok
            }
            _ if ev.is_user_op() => {
                if res.result.is_err() {
                    let d = diff(&self.cur, &new);
                    let lens_same = (u1, r1) == (u0, r0);
                    if self.mode == HistMode::Fail {
                        self.fail_checks += 1;
                        if r0 > 0 {
                            self.probe_fail_with_redo += 1;
                        }
                        if u0 > 0 {
                            self.probe_fail_with_undo += 1;
                        }
                        if !lens_same {
                            return Verdict::Violation(Violation::simple(
                                "failed-op-history",
                                idx,
                                kind,
                                "history",
                                format!(
                                    "{kind} returned {:?} but undo/redo lengths went ({u0},{r0})->({u1},{r1})",
                                    res.result
                                ),
                            ));
                        }
                        if !d.is_empty() {
                            return Verdict::Violation(Violation::from_diff(
                                "failed-op-state",
                                idx,
                                idx,
                                kind,
                                d,
                                format!("{kind} returned {:?} but the workbook changed", res.result),
                            ));
                        }
                        return Verdict::Ok;
                    }
                    if !lens_same || !d.is_empty() {
                        return Verdict::Abandon(Abandon(format!("rejected {kind} altered state/history (C04's business)")));
                    }
                    return Verdict::Ok;
                }
                // successful call
                if (u1, r1) == (u0 + 1, 0) {
                    if self.cursor + 1 < self.snaps.len() {
                        self.probe_new_op_after_undo += 1;
                    }
                    self.snaps.truncate(self.cursor + 1);
                    self.kinds.truncate(self.cursor + 1);
                    self.snaps.push(new.clone());
                    self.kinds.push((kind.to_string(), idx));
                    self.cursor += 1;
                    self.cur = new;
                    Verdict::Ok
                } else if (u1, r1) == (u0, r0) {
                    // recorded nothing; the state it leaves is the state the
                    // cursor now stands on
                    let d = diff(&self.cur, &new);
                    if !d.is_empty() {
                        return Verdict::Abandon(Abandon(format!("{kind} changed the workbook without a history entry")));
                    }
                    self.cur = new;
                    Verdict::Ok
                } else {
                    Verdict::Violation(Violation::simple(
                        "history-shape",
                        idx,
                        kind,
                        "history",
                        format!("successful {kind}: lengths ({u0},{r0})->({u1},{r1})"),
                    ))
                }
            }
            _ => {
                // per-user events: must not touch history
                if (u1, r1) != (u0, r0) {
                    return Verdict::Violation(Violation::simple(
                        "history-shape",
                        idx,
                        kind,
                        "history",
                        format!("{kind} changed lengths ({u0},{r0})->({u1},{r1})"),
                    ));
                }
                let d = diff(&self.cur, &new);
                if !d.is_empty() {
                    return Verdict::Abandon(Abandon(format!("{kind} changed the observable workbook")));
                }
                Verdict::Ok
            }
        }
    }
    fn exercised(&self) -> u64 {
        match self.mode {
            HistMode::Undo => self.undo_checks,
            HistMode::Redo => self.redo_checks,
            HistMode::Fail => self.fail_checks,
        }
    }
    fn counters(&self) -> Vec<(String, u64)> {
        vec![
            ("undo_compared".into(), self.undo_checks),
            ("redo_compared".into(), self.redo_checks),
            ("failed_call_compared".into(), self.fail_checks),
            ("cursor_checks".into(), self.cursor_checks),
            ("probe_undo_with_nonempty_redo".into(), self.probe_undo_nonempty_redo),
            ("probe_new_op_after_partial_undo".into(), self.probe_new_op_after_undo),
            ("probe_walked_back_to_start".into(), self.probe_walk_to_start),
            ("probe_failed_call_with_nonempty_redo".into(), self.probe_fail_with_redo),
            ("probe_failed_call_with_nonempty_undo".into(), self.probe_fail_with_undo),
        ]
    }
    fn last_hash(&self) -> u64 {
        crate::snap::hash(&self.cur)
    }
}

// ---------------------------------------------------------------------------
// Convergence of followers fed by the diff queue: C03

pub struct Converge {
    cur: Snap,
    compares: u64,
    batches_applied: u64,
    probe_multi_batch_inbox: u64,
    probe_undo_in_batch: u64,
    last: u64,
}

impl Converge {
    pub fn new() -> Converge {
        Converge { cur: Snap::new(), compares: 0, batches_applied: 0, probe_multi_batch_inbox: 0, probe_undo_in_batch: 0, last: 0 }
    }
    fn compare(&mut self, w: &World, idx: usize) -> Verdict {
        let p = snapshot(&w.primary);
        self.last = crate::snap::hash(&p);
        for (i, f) in w.followers.iter().enumerate() {
            self.compares += 1;
            let s = snapshot(&f.node);
            let d = diff(&p, &s);
            if !d.is_empty() {
                return Verdict::Violation(Violation::from_diff(
                    "follower-converges",
                    idx,
                    idx,
                    "Deliver",
                    d,
                    format!("follower {i} differs from the primary after applying every flushed batch in order (expected = primary, actual = follower)"),
                ));
            }
        }
        Verdict::Ok
    }
}

impl Oracle for Converge {
    fn init(&mut self, w: &World) {
        self.cur = snapshot(&w.primary);
    }
    fn after(&mut self, w: &mut World, ev: &Ev, res: &StepRes, idx: usize) -> Verdict {
        let kind = ev.kind();
        if let Some(p) = &res.panic {
            if matches!(ev, Ev::Deliver { .. }) {
                return Verdict::Violation(Violation::simple("panic", idx, kind, "panic", p.clone()));
            }
            return Verdict::Abandon(Abandon(format!("panic in {kind}: {p}")));
        }
        match ev {
            Ev::Deliver { follower } => {
                self.batches_applied += 1;
                if w.followers.get(*follower).map(|f| !f.inbox.is_empty()).unwrap_or(false) {
                    self.probe_multi_batch_inbox += 1;
                }
                if let Err(e) = &res.result {
                    return Verdict::Violation(Violation::simple(
                        "apply-external-diffs-error",
                        idx,
                        kind,
                        "result",
                        format!("apply_external_diffs returned Err({e:?})"),
                    ));
                }
            }
            Ev::Undo | Ev::Redo => {
                if res.result.is_err() {
                    // the primary itself is in an undefined state (C01/C02's business)
                    return Verdict::Abandon(Abandon(format!("{kind} failed on the primary: {:?}", res.result)));
                }
                self.probe_undo_in_batch += 1;
            }
            _ => {
                if ev.is_user_op() && res.result.is_err() {
                    // a rejected call that changed the primary without queueing anything is C04's business
                    let now = snapshot(&w.primary);
                    if now != self.cur {
                        return Verdict::Abandon(Abandon(format!("rejected {kind} changed the primary (C04's business)")));
                    }
                }
            }
        }
        if !ev.is_world() {
            self.cur = snapshot(&w.primary);
        }
        if w.quiescent() && !w.followers.is_empty() {
            return self.compare(w, idx);
        }
        Verdict::Ok
    }
    fn finish(&mut self, w: &mut World, idx: usize) -> Verdict {
        // once faults stop: flush what is left and drain every inbox
        let _ = w.step(&Ev::Flush);
        for i in 0..w.followers.len() {
            while !w.followers[i].inbox.is_empty() {
                let r = w.step(&Ev::Deliver { follower: i });
                self.batches_applied += 1;
                if let Some(p) = r.panic {
                    return Verdict::Violation(Violation::simple("panic", idx, "Deliver", "panic", p));
                }
                if let Err(e) = r.result {
                    return Verdict::Violation(Violation::simple(
                        "apply-external-diffs-error",
                        idx,
                        "Deliver",
                        "result",
                        format!("apply_external_diffs returned Err({e:?})"),
                    ));
                }
            }
        }
        if w.followers.is_empty() {
            return Verdict::Ok;
        }
        self.compare(w, idx)
    }
    fn exercised(&self) -> u64 {
        self.compares
    }
    fn counters(&self) -> Vec<(String, u64)> {
        vec![
            ("convergence_compared".into(), self.compares),
            ("batches_applied".into(), self.batches_applied),
            ("probe_delivery_with_more_batches_waiting".into(), self.probe_multi_batch_inbox),
            ("probe_undo_or_redo_replicated".into(), self.probe_undo_in_batch),
        ]
    }
    fn last_hash(&self) -> u64 {
        self.last
    }
}

// ---------------------------------------------------------------------------
// Restart from the byte store: C26

pub struct RestartOracle {
    cur: Snap,
    pre: Option<(Snap, bool)>,
    saved_fresh: bool,
    bytes_compared: u64,
    clean_compared: u64,
    dirty_compared: u64,
    skipped_stale: u64,
    last: u64,
}

impl RestartOracle {
    pub fn new() -> RestartOracle {
        RestartOracle { cur: Snap::new(), pre: None, saved_fresh: false, bytes_compared: 0, clean_compared: 0, dirty_compared: 0, skipped_stale: 0, last: 0 }
    }
}

fn workbook_field_diff(a: &ironcalc_base::types::Workbook, b: &ironcalc_base::types::Workbook) -> String {
    let mut out = Vec::new();
    if a.shared_strings != b.shared_strings {
        out.push("shared_strings".to_string());
    }
    if a.defined_names != b.defined_names {
        out.push("defined_names".to_string());
    }
    if a.styles != b.styles {
        out.push("styles".to_string());
    }
    if a.name != b.name || a.settings != b.settings || a.metadata != b.metadata {
        out.push("name/settings/metadata".to_string());
    }
    if a.tables != b.tables || a.views != b.views || a.theme != b.theme {
        out.push("tables/views/theme".to_string());
    }
    if a.worksheets.len() != b.worksheets.len() {
        out.push("worksheets.len".to_string());
    }
    for (i, (x, y)) in a.worksheets.iter().zip(b.worksheets.iter()).enumerate() {
        if x.sheet_data != y.sheet_data {
            out.push(format!("worksheets[{i}].sheet_data"));
        }
        if x.shared_formulas != y.shared_formulas {
            out.push(format!("worksheets[{i}].shared_formulas"));
        }
        if x.cols != y.cols || x.rows != y.rows {
            out.push(format!("worksheets[{i}].cols/rows"));
        }
        if x.conditional_formatting != y.conditional_formatting || x.links != y.links {
            out.push(format!("worksheets[{i}].cf/links"));
        }
        if x.views != y.views {
            out.push(format!("worksheets[{i}].views"));
        }
        if x.dimension != y.dimension || x.name != y.name || x.sheet_id != y.sheet_id || x.state != y.state || x.color != y.color
            || x.merge_cells != y.merge_cells || x.comments != y.comments || x.frozen_rows != y.frozen_rows || x.frozen_columns != y.frozen_columns
            || x.show_grid_lines != y.show_grid_lines
        {
            out.push(format!("worksheets[{i}].other"));
        }
    }
    out.join(", ")
}

impl Oracle for RestartOracle {
    fn init(&mut self, w: &World) {
        self.cur = snapshot(&w.primary);
    }
    fn before(&mut self, w: &World, ev: &Ev) {
        match ev {
            Ev::Restart { .. } => {
                self.pre = Some((snapshot(&w.primary), w.primary.stale));
            }
            Ev::Save => {
                self.saved_fresh = !w.primary.stale;
            }
            _ => {}
        }
    }
    fn after(&mut self, w: &mut World, ev: &Ev, res: &StepRes, idx: usize) -> Verdict {
        let kind = ev.kind();
        if let Some(p) = &res.panic {
            if matches!(ev, Ev::Restart { .. } | Ev::Save) {
                return Verdict::Violation(Violation::simple("panic", idx, kind, "panic", p.clone()));
            }
            return Verdict::Abandon(Abandon(format!("panic in {kind}: {p}")));
        }
        match ev {
            Ev::Save => {
                // (1) decode(encode(workbook)) == workbook, field by field (derived PartialEq)
                self.bytes_compared += 1;
                // the stored form is the bitcode encoding of the workbook: decoding it must give
                // the identical workbook (Model::from_bytes additionally re-parses and evaluates
                // conditional formats, which is judged by the restart comparisons)
                let bytes = w.primary.um.to_bytes();
                match bitcode::decode::<ironcalc_base::types::Workbook>(&bytes) {
                    Ok(wb) => {
                        if wb != w.primary.model().workbook {
                            return Verdict::Violation(Violation::simple(
                                "bytes-identical",
                                idx,
                                kind,
                                "workbook",
                                format!("decode(to_bytes(m)) != m.workbook: {}", workbook_field_diff(&w.primary.model().workbook, &wb)),
                            ));
                        }
                    }
                    Err(e) => {
                        return Verdict::Violation(Violation::simple("bytes-load", idx, kind, "result", format!("decode(to_bytes(m)) failed: {e}")));
                    }
                }
                if let Err(e) = ironcalc_base::Model::from_bytes(&bytes, w.primary.lang) {
                    return Verdict::Violation(Violation::simple("bytes-load", idx, kind, "result", format!("from_bytes(to_bytes(m)) failed: {e}")));
                }
                Verdict::Ok
            }
            Ev::Restart { dirty } => {
                if let Err(e) = &res.result {
                    if e.starts_with("harness:") {
                        return Verdict::Ok;
                    }
                    return Verdict::Violation(Violation::simple("bytes-load", idx, kind, "result", format!("restart failed: {e}")));
                }
                let now = snapshot(&w.primary);
                self.last = crate::snap::hash(&now);
                self.cur = now.clone();
                if *dirty {
                    // only durable state survives: the workbook is the one saved
                    if !self.saved_fresh {
                        self.skipped_stale += 1;
                        return Verdict::Ok;
                    }
                    if let Some(s) = &w.store {
                        self.dirty_compared += 1;
                        let d = diff(&s.snap, &now);
                        if !d.is_empty() {
                            return Verdict::Violation(Violation::from_diff(
                                "dirty-restart",
                                idx,
                                idx,
                                kind,
                                d,
                                "after a crash the session loaded from the last saved bytes differs from the session that was saved (expected = at save, actual = after load + evaluate)".into(),
                            ));
                        }
                    }
                    return Verdict::Ok;
                }
                match self.pre.take() {
                    Some((pre, false)) => {
                        self.clean_compared += 1;
                        let d = diff(&pre, &now);
                        if !d.is_empty() {
                            return Verdict::Violation(Violation::from_diff(
                                "clean-restart",
                                idx,
                                idx,
                                kind,
                                d,
                                "the session loaded from to_bytes() and evaluated differs from the session that was saved (expected = before, actual = after)".into(),
                            ));
                        }
                        Verdict::Ok
                    }
                    _ => {
                        self.skipped_stale += 1;
                        Verdict::Ok
                    }
                }
            }
            _ => {
                if ev.is_user_op() && res.result.is_err() {
                    let now = snapshot(&w.primary);
                    if now != self.cur {
                        return Verdict::Abandon(Abandon(format!("rejected {kind} changed the workbook (C04's business)")));
                    }
                } else if !ev.is_world() {
                    self.cur = snapshot(&w.primary);
                }
                Verdict::Ok
            }
        }
    }
    fn exercised(&self) -> u64 {
        self.clean_compared + self.dirty_compared + self.bytes_compared
    }
    fn counters(&self) -> Vec<(String, u64)> {
        vec![
            ("workbook_equality_after_decode".into(), self.bytes_compared),
            ("clean_restart_compared".into(), self.clean_compared),
            ("dirty_restart_compared".into(), self.dirty_compared),
            ("restart_skipped_unevaluated_state".into(), self.skipped_stale),
        ]
    }
    fn last_hash(&self) -> u64 {
        self.last
    }
}

// ---------------------------------------------------------------------------
// xlsx disk: C24 (round trip, writer faults) and C25 (damaged packages)

/// facets of the observable snapshot that the C24 statement lists
pub fn c24_facet(f: &str) -> bool {
    !matches!(f, "wb.name" | "wb.theme" | "namedstyle" | "wb.locale" | "wb.tz")
}

/// Conditional-format priorities are an order, not numbers: the file format renumbers
/// them 1..n per sheet. Replaces `prio=<n>` by the rank of n among the sheet's rules.
pub fn rank_cf_priorities(s: &mut crate::snap::Snap) {
    let mut by_sheet: BTreeMap<String, Vec<(i64, String)>> = BTreeMap::new();
    for (k, v) in s.iter() {
        if let Some(rest) = k.strip_prefix("cf@") {
            let sheet = rest.split('#').next().unwrap_or("").to_string();
            if let Some(p) = v.split(" prio=").nth(1).and_then(|x| x.split(' ').next()).and_then(|x| x.parse::<i64>().ok()) {
                by_sheet.entry(sheet).or_default().push((p, k.clone()));
            }
        }
    }
    for (_, mut v) in by_sheet {
        v.sort();
        let mut rank = 0;
        let mut last: Option<i64> = None;
        for (p, k) in v {
            if last != Some(p) {
                rank += 1;
                last = Some(p);
            }
            if let Some(val) = s.get_mut(&k) {
                *val = val.replacen(&format!(" prio={p} "), &format!(" prio=#{rank} "), 1);
            }
        }
    }
}

pub struct XlsxRoundTrip {
    clean_compared: u64,
    faulted_exports: u64,
    faulted_export_errors: u64,
    faulted_export_ok_compared: u64,
    skipped_stale: u64,
    last: u64,
}

impl XlsxRoundTrip {
    pub fn new() -> XlsxRoundTrip {
        XlsxRoundTrip { clean_compared: 0, faulted_exports: 0, faulted_export_errors: 0, faulted_export_ok_compared: 0, skipped_stale: 0, last: 0 }
    }
}

impl Oracle for XlsxRoundTrip {
    fn init(&mut self, _w: &World) {}
    fn after(&mut self, w: &mut World, ev: &Ev, res: &StepRes, idx: usize) -> Verdict {
        let kind = ev.kind();
        if let Some(p) = &res.panic {
            if matches!(ev, Ev::XlsxExportImport { .. }) {
                let loc = p.rsplit("[at ").next().unwrap_or("").trim_end_matches(']').to_string();
                return Verdict::Violation(Violation::simple("panic", idx, kind, &format!("panic@{loc}"), p.clone()));
            }
            return Verdict::Abandon(Abandon(format!("panic in {kind}: {p}")));
        }
        let plan = match ev {
            Ev::XlsxExportImport { plan } => plan,
            _ => return Verdict::Ok,
        };
        if w.primary.stale {
            self.skipped_stale += 1;
            return Verdict::Ok;
        }
        let faulted = !plan.is_none();
        if faulted {
            self.faulted_exports += 1;
        }
        match &res.aux {
            Some(crate::world::Aux::ExportFailed(e)) => {
                if faulted {
                    self.faulted_export_errors += 1;
                    Verdict::Ok
                } else {
                    Verdict::Violation(Violation::simple("export-error", idx, kind, "result", format!("export failed without any injected fault: {e}")))
                }
            }
            Some(crate::world::Aux::ImportFailed { damaged: Some(d), .. }) | Some(crate::world::Aux::Imported { damaged: Some(d), .. }) => {
                Verdict::Violation(Violation::simple(
                    "export-ok-but-damaged",
                    idx,
                    kind,
                    "result",
                    format!("save_xlsx_to_writer returned Ok under injected write faults but the disk does not hold the fault-free export: {d}"),
                ))
            }
            Some(crate::world::Aux::ImportFailed { error, bytes_len, .. }) => Verdict::Violation(Violation::simple(
                "import-error",
                idx,
                kind,
                "result",
                format!("save_xlsx_to_writer returned Ok ({bytes_len} bytes) but the file does not import: {error}"),
            )),
            Some(crate::world::Aux::Imported { model, .. }) => {
                let mut a = crate::snap::restrict(&snapshot(&w.primary), c24_facet);
                let mut b = crate::snap::restrict(&crate::snap::snapshot_model(model, None, &crate::snap::SnapOpts::default()), c24_facet);
                rank_cf_priorities(&mut a);
                rank_cf_priorities(&mut b);
                self.last = crate::snap::hash(&a);
                if faulted {
                    self.faulted_export_ok_compared += 1;
                } else {
                    self.clean_compared += 1;
                }
                let d = diff(&a, &b);
                if d.is_empty() {
                    Verdict::Ok
                } else {
                    Verdict::Violation(Violation::from_diff(
                        "xlsx-round-trip",
                        idx,
                        idx,
                        kind,
                        d,
                        "the workbook imported from the exported xlsx differs from the exported one (expected = exported, actual = imported)".into(),
                    ))
                }
            }
            _ => Verdict::Ok,
        }
    }
    fn exercised(&self) -> u64 {
        self.clean_compared + self.faulted_exports
    }
    fn counters(&self) -> Vec<(String, u64)> {
        vec![
            ("fault_free_round_trips_compared".into(), self.clean_compared),
            ("exports_with_write_faults".into(), self.faulted_exports),
            ("faulted_exports_that_returned_err".into(), self.faulted_export_errors),
            ("faulted_exports_that_returned_ok_and_were_compared".into(), self.faulted_export_ok_compared),
            ("skipped_unevaluated_state".into(), self.skipped_stale),
        ]
    }
    fn last_hash(&self) -> u64 {
        self.last
    }
}

pub struct CorruptImportOracle {
    attempts: u64,
    imported: u64,
    rejected: u64,
    reader_faults: u64,
    kinds: std::collections::BTreeMap<String, u64>,
    last: u64,
}

impl CorruptImportOracle {
    pub fn new() -> CorruptImportOracle {
        CorruptImportOracle { attempts: 0, imported: 0, rejected: 0, reader_faults: 0, kinds: Default::default(), last: 0 }
    }
}

pub fn corrupt_kind(c: &crate::xlsxfault::Corrupt) -> &'static str {
    use crate::xlsxfault::Corrupt::*;
    match c {
        None => "none",
        Truncate { .. } => "truncate",
        ZeroBlock { .. } => "zero-block",
        BitFlips { .. } => "bit-flips",
        DropEntry { .. } => "drop-entry",
        DuplicateEntry { .. } => "duplicate-entry",
        SwapEntries { .. } => "swap-entries",
        EmptyEntry { .. } => "empty-entry",
        TruncateXml { .. } => "truncate-xml",
        DropElement { .. } => "drop-element",
        DropAttr { .. } => "drop-attribute",
        SetAttr { .. } => "set-attribute",
        SetText { .. } => "set-text",
        DeepNest { .. } => "deep-nest",
        Garbage { .. } => "garbage",
    }
}

impl Oracle for CorruptImportOracle {
    fn init(&mut self, _w: &World) {}
    fn after(&mut self, _w: &mut World, ev: &Ev, res: &StepRes, idx: usize) -> Verdict {
        let kind = ev.kind();
        let (corrupt, read) = match ev {
            Ev::CorruptImport { corrupt, read, .. } => (corrupt, read),
            _ => {
                if let Some(p) = &res.panic {
                    return Verdict::Abandon(Abandon(format!("panic in {kind}: {p}")));
                }
                return Verdict::Ok;
            }
        };
        self.attempts += 1;
        let ck = corrupt_kind(corrupt);
        *self.kinds.entry(format!("corrupt_{ck}")).or_insert(0) += 1;
        if read.is_some() {
            *self.kinds.entry("reader_fault_plan".into()).or_insert(0) += 1;
        }
        if let Some(p) = &res.panic {
            let loc = p.rsplit("[at ").next().unwrap_or("").trim_end_matches(']').to_string();
            return Verdict::Violation(Violation::simple("import-panic", idx, kind, &format!("panic@{loc}"), format!("importing a damaged package ({ck}) panicked: {p}")));
        }
        if let Some(crate::world::Aux::Corrupted { imported, reader_faults, bytes_len, .. }) = &res.aux {
            self.last = *bytes_len as u64;
            self.reader_faults += reader_faults;
            if *imported {
                self.imported += 1;
            } else {
                self.rejected += 1;
            }
        }
        Verdict::Ok
    }
    fn exercised(&self) -> u64 {
        self.attempts
    }
    fn counters(&self) -> Vec<(String, u64)> {
        let mut v = vec![
            ("damaged_packages_imported".into(), self.attempts),
            ("import_returned_ok".into(), self.imported),
            ("import_returned_err".into(), self.rejected),
            ("reader_faults_fired".into(), self.reader_faults),
        ];
        v.extend(self.kinds.iter().map(|(k, c)| (k.clone(), *c)));
        v
    }
    fn last_hash(&self) -> u64 {
        self.last
    }
}
