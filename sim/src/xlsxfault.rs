//! The xlsx "disk": a fault-injecting `Write + Seek` sink for the exporter, a
//! fault-injecting `Read + Seek` source for the importer (hook H2), and the
//! corruption stage that sits between export and import (torn / lost / flipped
//! bytes, lost or swapped zip entries, dropped XML elements and attributes,
//! garbled values) — the storage faults of DESIGN §6 C24/C25.

use crate::rng::Rng;
use serde::{Deserialize, Serialize};
use std::io::{self, Cursor, Read, Seek, SeekFrom, Write};

// ---------------------------------------------------------------------------
// writer

#[derive(Serialize, Deserialize, Clone, Debug, Default, PartialEq)]
pub struct WritePlan {
    /// at most this many bytes are accepted per write call (short writes)
    pub short: Option<u32>,
    /// every n-th write call returns ErrorKind::Interrupted (and writes nothing)
    pub interrupt_every: Option<u32>,
    /// a hard error once this many bytes have been written
    pub fail_at_byte: Option<u64>,
    /// the n-th seek call fails
    pub fail_seek_at: Option<u32>,
    /// flush fails
    pub fail_flush: bool,
}

impl WritePlan {
    pub fn is_none(&self) -> bool {
        *self == WritePlan::default()
    }
}

#[derive(Default, Clone, Debug)]
pub struct DiskStats {
    pub short_writes: u64,
    pub interrupts: u64,
    pub write_errors: u64,
    pub seek_errors: u64,
    pub flush_errors: u64,
}

pub struct SimDisk {
    pub data: Cursor<Vec<u8>>,
    plan: WritePlan,
    writes: u32,
    seeks: u32,
    written: u64,
    pub stats: DiskStats,
}

impl SimDisk {
    pub fn new(plan: WritePlan) -> SimDisk {
        SimDisk { data: Cursor::new(Vec::new()), plan, writes: 0, seeks: 0, written: 0, stats: DiskStats::default() }
    }
    pub fn into_bytes(self) -> Vec<u8> {
        self.data.into_inner()
    }
}

impl Write for SimDisk {
    fn write(&mut self, buf: &[u8]) -> io::Result<usize> {
        self.writes += 1;
        if let Some(n) = self.plan.interrupt_every {
            if n > 0 && self.writes % n == 0 {
                self.stats.interrupts += 1;
                return Err(io::Error::new(io::ErrorKind::Interrupted, "simulated EINTR"));
            }
        }
        if let Some(k) = self.plan.fail_at_byte {
            if self.written + buf.len() as u64 > k {
                self.stats.write_errors += 1;
                return Err(io::Error::new(io::ErrorKind::Other, "simulated disk error (EIO / ENOSPC)"));
            }
        }
        let mut take = buf.len();
        if let Some(s) = self.plan.short {
            if take > s as usize && s > 0 {
                take = s as usize;
                self.stats.short_writes += 1;
            }
        }
        let n = self.data.write(&buf[..take])?;
        self.written += n as u64;
        Ok(n)
    }
    fn flush(&mut self) -> io::Result<()> {
        if self.plan.fail_flush {
            self.stats.flush_errors += 1;
            return Err(io::Error::new(io::ErrorKind::Other, "simulated flush error"));
        }
        self.data.flush()
    }
}

impl Seek for SimDisk {
    fn seek(&mut self, pos: SeekFrom) -> io::Result<u64> {
        self.seeks += 1;
        if let Some(n) = self.plan.fail_seek_at {
            if self.seeks == n {
                self.stats.seek_errors += 1;
                return Err(io::Error::new(io::ErrorKind::Other, "simulated seek error"));
            }
        }
        self.data.seek(pos)
    }
}

// ---------------------------------------------------------------------------
// reader

#[derive(Serialize, Deserialize, Clone, Debug, Default, PartialEq)]
pub struct ReadPlan {
    pub short: Option<u32>,
    pub interrupt_every: Option<u32>,
    /// EIO once the read position passes this offset
    pub fail_at_byte: Option<u64>,
    /// the source ends here (early EOF)
    pub eof_at: Option<u64>,
}

pub struct FaultyReader {
    data: Cursor<Vec<u8>>,
    plan: ReadPlan,
    reads: u32,
    pub faults_fired: u64,
}

impl FaultyReader {
    pub fn new(bytes: Vec<u8>, plan: ReadPlan) -> FaultyReader {
        let mut bytes = bytes;
        if let Some(e) = plan.eof_at {
            bytes.truncate(e as usize);
        }
        FaultyReader { data: Cursor::new(bytes), plan, reads: 0, faults_fired: 0 }
    }
}

impl Read for FaultyReader {
    fn read(&mut self, buf: &mut [u8]) -> io::Result<usize> {
        self.reads += 1;
        if let Some(n) = self.plan.interrupt_every {
            if n > 0 && self.reads % n == 0 {
                self.faults_fired += 1;
                return Err(io::Error::new(io::ErrorKind::Interrupted, "simulated EINTR"));
            }
        }
        if let Some(k) = self.plan.fail_at_byte {
            if self.data.position() + buf.len() as u64 > k {
                self.faults_fired += 1;
                return Err(io::Error::new(io::ErrorKind::Other, "simulated read error (EIO)"));
            }
        }
        let mut take = buf.len();
        if let Some(s) = self.plan.short {
            if s > 0 && take > s as usize {
                take = s as usize;
                self.faults_fired += 1;
            }
        }
        self.data.read(&mut buf[..take])
    }
}

impl Seek for FaultyReader {
    fn seek(&mut self, pos: SeekFrom) -> io::Result<u64> {
        self.data.seek(pos)
    }
}

// ---------------------------------------------------------------------------
// corruption stage

#[derive(Serialize, Deserialize, Clone, Debug, PartialEq)]
#[serde(tag = "c")]
pub enum Corrupt {
    None,
    Truncate { at: u64 },
    ZeroBlock { at: u64, len: u64 },
    BitFlips { seed: u64, n: u32 },
    DropEntry { name: String },
    DuplicateEntry { name: String },
    SwapEntries { a: String, b: String },
    EmptyEntry { name: String },
    TruncateXml { entry: String, keep_percent: u8 },
    /// remove every `<name ...>...</name>` / `<name .../>` (first occurrence only when `first`)
    DropElement { entry: String, name: String, first: bool },
    /// remove the attribute `name="..."` everywhere in the entry (first occurrence only when `first`)
    DropAttr { entry: String, name: String, first: bool },
    SetAttr { entry: String, name: String, value: String, first: bool },
    /// replace the text payload of every element `name` (e.g. `v`, `f`, `t`)
    SetText { entry: String, name: String, value: String, first: bool },
    DeepNest { entry: String, depth: u32 },
    Garbage { seed: u64, len: u32 },
}

pub fn read_entries(bytes: &[u8]) -> Result<Vec<(String, Vec<u8>)>, String> {
    let mut ar = zip::ZipArchive::new(Cursor::new(bytes)).map_err(|e| format!("{e}"))?;
    let mut out = Vec::new();
    for i in 0..ar.len() {
        let mut f = ar.by_index(i).map_err(|e| format!("{e}"))?;
        let name = f.name().to_string();
        let mut data = Vec::new();
        f.read_to_end(&mut data).map_err(|e| format!("{e}"))?;
        out.push((name, data));
    }
    Ok(out)
}

pub fn write_entries(entries: &[(String, Vec<u8>)]) -> Vec<u8> {
    let mut zw = zip::ZipWriter::new(Cursor::new(Vec::new()));
    let opts = zip::write::FileOptions::default();
    for (name, data) in entries {
        if name.ends_with('/') {
            let _ = zw.add_directory(name.trim_end_matches('/'), opts);
            continue;
        }
        if zw.start_file(name.clone(), opts).is_ok() {
            let _ = zw.write_all(data);
        }
    }
    match zw.finish() {
        Ok(c) => c.into_inner(),
        Err(_) => Vec::new(),
    }
}

fn find_elements(xml: &str, name: &str) -> Vec<(usize, usize)> {
    // (start, end) byte spans of elements named `name` (with optional namespace prefix excluded),
    // not nested-aware for same-named nesting beyond the first close: good enough for a fault injector
    let mut out = Vec::new();
    let open1 = format!("<{name} ");
    let open2 = format!("<{name}>");
    let open3 = format!("<{name}/>");
    let close = format!("</{name}>");
    let mut i = 0;
    while i < xml.len() {
        let rest = &xml[i..];
        let cand = [rest.find(&open1), rest.find(&open2), rest.find(&open3)].iter().flatten().copied().min();
        let s = match cand {
            Some(s) => i + s,
            None => break,
        };
        // end of the start tag
        let gt = match xml[s..].find('>') {
            Some(g) => s + g,
            None => break,
        };
        let e = if xml[..gt].ends_with('/') {
            gt + 1
        } else {
            match xml[gt..].find(&close) {
                Some(c) => gt + c + close.len(),
                None => gt + 1,
            }
        };
        out.push((s, e));
        i = e.max(s + 1);
    }
    out
}

fn edit_xml(xml: &str, c: &Corrupt) -> String {
    match c {
        Corrupt::DropElement { name, first, .. } => {
            let spans = find_elements(xml, name);
            let mut out = String::new();
            let mut pos = 0;
            for (k, (s, e)) in spans.iter().enumerate() {
                if *first && k > 0 {
                    break;
                }
                if *s < pos {
                    continue;
                }
                out.push_str(&xml[pos..*s]);
                pos = *e;
            }
            out.push_str(&xml[pos..]);
            out
        }
        Corrupt::DropAttr { name, first, .. } | Corrupt::SetAttr { name, first, .. } => {
            let pat = format!(" {name}=\"");
            let mut out = String::new();
            let mut pos = 0;
            let mut k = 0;
            while let Some(i) = xml[pos..].find(&pat) {
                let s = pos + i;
                let vstart = s + pat.len();
                let vend = match xml[vstart..].find('"') {
                    Some(q) => vstart + q,
                    None => break,
                };
                out.push_str(&xml[pos..s]);
                if let Corrupt::SetAttr { value, .. } = c {
                    out.push_str(&format!(" {name}=\"{value}\""));
                }
                pos = vend + 1;
                k += 1;
                if *first && k >= 1 {
                    break;
                }
            }
            out.push_str(&xml[pos..]);
            out
        }
        Corrupt::SetText { name, value, first, .. } => {
            let mut out = String::new();
            let mut pos = 0;
            for (k, (s, e)) in find_elements(xml, name).iter().enumerate() {
                if *first && k > 0 {
                    break;
                }
                if *s < pos {
                    continue;
                }
                let el = &xml[*s..*e];
                let gt = match el.find('>') {
                    Some(g) => g,
                    None => continue,
                };
                if el[..gt].ends_with('/') {
                    continue;
                }
                let close = match el.rfind("</") {
                    Some(c) => c,
                    None => continue,
                };
                out.push_str(&xml[pos..*s]);
                out.push_str(&el[..gt + 1]);
                out.push_str(value);
                out.push_str(&el[close..]);
                pos = *e;
            }
            out.push_str(&xml[pos..]);
            out
        }
        Corrupt::TruncateXml { keep_percent, .. } => {
            let mut k = xml.len() * (*keep_percent as usize).min(100) / 100;
            while k > 0 && !xml.is_char_boundary(k) {
                k -= 1;
            }
            xml[..k].to_string()
        }
        Corrupt::DeepNest { depth, .. } => {
            // wrap the root's content in `depth` nested unknown elements
            let open: String = (0..*depth).map(|_| "<x>").collect();
            let close: String = (0..*depth).map(|_| "</x>").collect();
            match (xml.find("?>").map(|i| i + 2).unwrap_or(0), xml.rfind("</")) {
                (a, Some(b)) if a < b => {
                    let root_gt = xml[a..].find('>').map(|g| a + g + 1).unwrap_or(a);
                    if root_gt < b {
                        format!("{}{}{}{}{}", &xml[..root_gt], open, &xml[root_gt..b], close, &xml[b..])
                    } else {
                        xml.to_string()
                    }
                }
                _ => xml.to_string(),
            }
        }
        _ => xml.to_string(),
    }
}

pub fn corrupt(bytes: &[u8], c: &Corrupt) -> Vec<u8> {
    match c {
        Corrupt::None => bytes.to_vec(),
        Corrupt::Truncate { at } => bytes[..(*at as usize).min(bytes.len())].to_vec(),
        Corrupt::ZeroBlock { at, len } => {
            let mut b = bytes.to_vec();
            let s = (*at as usize).min(b.len());
            let e = (s + *len as usize).min(b.len());
            for x in &mut b[s..e] {
                *x = 0;
            }
            b
        }
        Corrupt::BitFlips { seed, n } => {
            let mut b = bytes.to_vec();
            let mut r = Rng::new(*seed);
            if !b.is_empty() {
                for _ in 0..*n {
                    let i = r.below(b.len() as u64) as usize;
                    b[i] ^= 1 << r.below(8);
                }
            }
            b
        }
        Corrupt::Garbage { seed, len } => {
            let mut r = Rng::new(*seed);
            (0..*len).map(|_| r.next() as u8).collect()
        }
        _ => {
            let mut entries = match read_entries(bytes) {
                Ok(e) => e,
                Err(_) => return bytes.to_vec(),
            };
            match c {
                Corrupt::DropEntry { name } => entries.retain(|(n, _)| n != name),
                Corrupt::DuplicateEntry { name } => {
                    if let Some(e) = entries.iter().find(|(n, _)| n == name).cloned() {
                        entries.push(e);
                    }
                }
                Corrupt::SwapEntries { a, b } => {
                    let ia = entries.iter().position(|(n, _)| n == a);
                    let ib = entries.iter().position(|(n, _)| n == b);
                    if let (Some(ia), Some(ib)) = (ia, ib) {
                        let da = entries[ia].1.clone();
                        entries[ia].1 = entries[ib].1.clone();
                        entries[ib].1 = da;
                    }
                }
                Corrupt::EmptyEntry { name } => {
                    for (n, d) in entries.iter_mut() {
                        if n == name {
                            d.clear();
                        }
                    }
                }
                Corrupt::TruncateXml { entry, .. }
                | Corrupt::DropElement { entry, .. }
                | Corrupt::DropAttr { entry, .. }
                | Corrupt::SetAttr { entry, .. }
                | Corrupt::SetText { entry, .. }
                | Corrupt::DeepNest { entry, .. } => {
                    for (n, d) in entries.iter_mut() {
                        if n == entry {
                            let xml = String::from_utf8_lossy(d).to_string();
                            *d = edit_xml(&xml, c).into_bytes();
                        }
                    }
                }
                _ => {}
            }
            write_entries(&entries)
        }
    }
}

/// distinct element names and attribute names occurring in an XML text
pub fn names_in(xml: &str) -> (Vec<String>, Vec<String>) {
    let mut els: Vec<String> = Vec::new();
    let mut attrs: Vec<String> = Vec::new();
    let b = xml.as_bytes();
    let mut i = 0;
    while i < b.len() {
        if b[i] == b'<' && i + 1 < b.len() && (b[i + 1].is_ascii_alphabetic()) {
            let mut j = i + 1;
            while j < b.len() && !matches!(b[j], b' ' | b'>' | b'/' | b'\n' | b'\r' | b'\t') {
                j += 1;
            }
            let name = xml[i + 1..j].to_string();
            if !els.contains(&name) {
                els.push(name);
            }
            // attributes until '>'
            let end = xml[j..].find('>').map(|g| j + g).unwrap_or(b.len());
            let tag = &xml[j..end];
            let mut rest = tag;
            while let Some(eq) = rest.find("=\"") {
                let before = &rest[..eq];
                let an = before.rsplit(|c: char| c.is_whitespace()).next().unwrap_or("").to_string();
                if !an.is_empty() && !attrs.contains(&an) {
                    attrs.push(an);
                }
                let after = &rest[eq + 2..];
                match after.find('"') {
                    Some(q) => rest = &after[q + 1..],
                    None => break,
                }
            }
            i = end;
        }
        i += 1;
    }
    (els, attrs)
}

/// Draws one corruption for the given package.
pub fn draw(rng: &mut Rng, bytes: &[u8]) -> Corrupt {
    let entries = read_entries(bytes).unwrap_or_default();
    let xml_entries: Vec<&(String, Vec<u8>)> = entries.iter().filter(|(n, _)| n.ends_with(".xml") || n.ends_with(".rels")).collect();
    let len = bytes.len().max(1) as u64;
    let pick_entry = |rng: &mut Rng| -> Option<(String, String)> {
        if xml_entries.is_empty() {
            return None;
        }
        // bias towards the parts the importer actually reads
        let weighted: Vec<&(String, Vec<u8>)> = xml_entries
            .iter()
            .flat_map(|e| {
                let w = if e.0.contains("worksheets/sheet") || e.0.ends_with("styles.xml") || e.0.ends_with("workbook.xml") { 4 } else { 1 };
                std::iter::repeat(*e).take(w)
            })
            .collect();
        let e = weighted[rng.below(weighted.len() as u64) as usize];
        Some((e.0.clone(), String::from_utf8_lossy(&e.1).to_string()))
    };
    match rng.below(16) {
        0 => Corrupt::Truncate { at: rng.below(len) },
        1 => Corrupt::ZeroBlock { at: rng.below(len), len: 1 + rng.below(512) },
        2 => Corrupt::BitFlips { seed: rng.next(), n: 1 + rng.below(8) as u32 },
        3 => match entries.get(rng.below(entries.len().max(1) as u64) as usize) {
            Some(e) => Corrupt::DropEntry { name: e.0.clone() },
            None => Corrupt::None,
        },
        4 => match entries.get(rng.below(entries.len().max(1) as u64) as usize) {
            Some(e) => {
                if rng.chance(0.5) {
                    Corrupt::DuplicateEntry { name: e.0.clone() }
                } else {
                    Corrupt::EmptyEntry { name: e.0.clone() }
                }
            }
            None => Corrupt::None,
        },
        5 => {
            if entries.len() >= 2 {
                let a = entries[rng.below(entries.len() as u64) as usize].0.clone();
                let b = entries[rng.below(entries.len() as u64) as usize].0.clone();
                Corrupt::SwapEntries { a, b }
            } else {
                Corrupt::None
            }
        }
        6 => match pick_entry(rng) {
            Some((entry, _)) => Corrupt::TruncateXml { entry, keep_percent: rng.below(100) as u8 },
            None => Corrupt::None,
        },
        7 | 8 | 9 => match pick_entry(rng) {
            Some((entry, xml)) => {
                let (els, _) = names_in(&xml);
                if els.is_empty() {
                    Corrupt::None
                } else {
                    Corrupt::DropElement { entry, name: els[rng.below(els.len() as u64) as usize].clone(), first: rng.chance(0.5) }
                }
            }
            None => Corrupt::None,
        },
        10 | 11 => match pick_entry(rng) {
            Some((entry, xml)) => {
                let (_, attrs) = names_in(&xml);
                if attrs.is_empty() {
                    Corrupt::None
                } else {
                    Corrupt::DropAttr { entry, name: attrs[rng.below(attrs.len() as u64) as usize].clone(), first: rng.chance(0.5) }
                }
            }
            None => Corrupt::None,
        },
        12 | 13 => match pick_entry(rng) {
            Some((entry, xml)) => {
                let (_, attrs) = names_in(&xml);
                if attrs.is_empty() {
                    Corrupt::None
                } else {
                    let value = rng
                        .pick(&["", "-1", "0", "99999999999", "4294967296", "abc", "1.5", "A0", "ZZZZ99999999", "true", "\u{fffd}", "1:1", "A1:", "rId999"])
                        .to_string();
                    Corrupt::SetAttr { entry, name: attrs[rng.below(attrs.len() as u64) as usize].clone(), value, first: rng.chance(0.5) }
                }
            }
            None => Corrupt::None,
        },
        14 => match pick_entry(rng) {
            Some((entry, _)) => {
                let name = rng.pick(&["v", "f", "t", "is", "c"]).to_string();
                let value = rng
                    .pick(&["1e999", "NaN", "INF", "-inf", "", "99999999999999999999999999999999999999999", "-1", "abc", "=1+", "4294967295", "<x/>"])
                    .to_string();
                Corrupt::SetText { entry, name, value, first: rng.chance(0.5) }
            }
            None => Corrupt::None,
        },
        _ => match pick_entry(rng) {
            Some((entry, _)) => {
                if rng.chance(0.5) {
                    Corrupt::DeepNest { entry, depth: *rng.pick(&[10u32, 200, 5000]) }
                } else {
                    Corrupt::Garbage { seed: rng.next(), len: rng.below(4096) as u32 }
                }
            }
            None => Corrupt::None,
        },
    }
}

pub fn draw_write_plan(rng: &mut Rng, approx_len: u64) -> WritePlan {
    let mut p = WritePlan::default();
    match rng.below(7) {
        0 => p.short = Some(*rng.pick(&[1u32, 2, 7, 64, 1000])),
        1 => p.interrupt_every = Some(*rng.pick(&[2u32, 3, 10, 50])),
        2 | 3 => p.fail_at_byte = Some(rng.below(approx_len.max(1))),
        4 => p.fail_seek_at = Some(1 + rng.below(40) as u32),
        5 => p.fail_flush = true,
        _ => {
            p.short = Some(*rng.pick(&[1u32, 3, 100]));
            p.interrupt_every = Some(*rng.pick(&[2u32, 5]));
        }
    }
    p
}

pub fn draw_read_plan(rng: &mut Rng, len: u64) -> ReadPlan {
    let mut p = ReadPlan::default();
    match rng.below(5) {
        0 => p.short = Some(*rng.pick(&[1u32, 2, 13, 512])),
        1 => p.interrupt_every = Some(*rng.pick(&[2u32, 3, 17])),
        2 => p.fail_at_byte = Some(rng.below(len.max(1))),
        3 => p.eof_at = Some(rng.below(len.max(1))),
        _ => {
            p.short = Some(7);
            p.interrupt_every = Some(3);
        }
    }
    p
}

// ---------------------------------------------------------------------------
// enumerated faults (C25 fault_enumeration): for every fixture, every XML part, every
// element and attribute name that occurs in it, a fixed list of damages

pub const FORGED_ATTR_VALUES: [&str; 6] = ["", "-1", "4294967296", "abc", "A1:", "rId999"];
pub const FORGED_TEXT_VALUES: [&str; 8] = ["4294967295", "1e15", "1e300", "-4294967295", "1e999", "NaN", "", "=1+"];

/// the full, deterministic list of (fixture, damage) cases
pub fn enumerate_cases(fixtures_dir: &str, fixtures: &[String]) -> Vec<(String, Corrupt)> {
    let mut out = Vec::new();
    for f in fixtures {
        let bytes = match std::fs::read(format!("{fixtures_dir}/{f}")) {
            Ok(b) => b,
            Err(_) => continue,
        };
        let entries = match read_entries(&bytes) {
            Ok(e) => e,
            Err(_) => continue,
        };
        for (name, data) in &entries {
            out.push((f.clone(), Corrupt::DropEntry { name: name.clone() }));
            out.push((f.clone(), Corrupt::EmptyEntry { name: name.clone() }));
            if !(name.ends_with(".xml") || name.ends_with(".rels")) {
                continue;
            }
            let xml = String::from_utf8_lossy(data).to_string();
            let (els, attrs) = names_in(&xml);
            for k in [10u8, 50, 90] {
                out.push((f.clone(), Corrupt::TruncateXml { entry: name.clone(), keep_percent: k }));
            }
            for e in &els {
                out.push((f.clone(), Corrupt::DropElement { entry: name.clone(), name: e.clone(), first: true }));
                out.push((f.clone(), Corrupt::DropElement { entry: name.clone(), name: e.clone(), first: false }));
            }
            for a in &attrs {
                out.push((f.clone(), Corrupt::DropAttr { entry: name.clone(), name: a.clone(), first: false }));
                for v in FORGED_ATTR_VALUES {
                    out.push((f.clone(), Corrupt::SetAttr { entry: name.clone(), name: a.clone(), value: v.to_string(), first: false }));
                }
            }
            if name.contains("worksheets/sheet") {
                for v in FORGED_TEXT_VALUES {
                    out.push((f.clone(), Corrupt::SetText { entry: name.clone(), name: "v".into(), value: v.to_string(), first: false }));
                }
                for v in ["", "=", "SUM(", "A1:XFE1048577", "1/0", "REPT(\"x\",1E9)"] {
                    out.push((f.clone(), Corrupt::SetText { entry: name.clone(), name: "f".into(), value: v.to_string(), first: false }));
                }
            }
        }
    }
    out
}
