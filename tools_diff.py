#!/usr/bin/env python3
"""print every diff line of a replay file in full"""
import json,sys
def find(o):
    if isinstance(o,dict):
        for k,x in o.items():
            if k=='diff' and isinstance(x,list):
                for l in x: print(' ',l.get('facet'),'@',l.get('at'),'\n     exp:',l.get('expected'),'\n     act:',l.get('actual'))
            else: find(x)
    elif isinstance(o,list):
        for x in o: find(x)
for f in sys.argv[1:]:
    d=json.load(open(f)); print('==',f)
    for i,r in enumerate(d.get('events',d.get('recs',[]))):
        print('  #%d'%i, json.dumps(r.get('ev',r))[:400])
    find(d)
